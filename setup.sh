#!/bin/bash
# Offline setup: icontract into the git-ignored .deps (each check also does this lazily),
# and the sanitizer-instrumented C reference for murmur3 (C14's second oracle).
cd "$(dirname "$0")"
set -e
/venv/bin/python - <<'PY'
import sys
sys.path.insert(0, ".")
from vk import common
ok = common.ensure_deps()
print("icontract available:", ok)
PY
if command -v clang >/dev/null 2>&1 && [ -f ref/murmur3_ref.c ]; then
  clang -O1 -g -fsanitize=address,undefined -fno-sanitize-recover=all -o ref/murmur3_ref ref/murmur3_ref.c \
    && echo "built ref/murmur3_ref (ASan+UBSan)" || echo "clang build failed; python reference alone decides C14"
fi
exit 0
