"""C01 - a call only ever consumes the server's reply to its own request.

Monitor: the FakeNet ownership tagger.  Reply bytes are tagged on the *server* side with
the public call whose command produced them; a recv() during another call that delivers
such a byte is STALE_READ; a call that returns normally while its own reply bytes are
still queued on an open socket is UNREAD_REPLY; a recv() that can never be satisfied is
BLOCKED_RECV.  Workload: every catalogue operation x every socket call of that operation
x every fault kind (incl. reply-line replacement per command and truncation at every
byte), followed by probes that read from the same connection."""
import random

from vk import catalogue, common, driver, fakenet, history

PROPERTY = "C01"
LEVEL = "fault_enumeration"
RULE = ("history = [optional warm-up get] + one catalogue op with exactly one injected fault (every socket call of the op x "
        "every applicable kind; reply-line replacement per replying command x 9 variants; truncation at every byte x {EOF, stall}) "
        "+ 4 probes reading from the same object; on Client, PooledClient, HashClient(1-2 servers, pooled or not); "
        "thorough adds two-fault plans and random multi-op histories. Non-trivial = the fault fired and a probe exchanged bytes "
        "on a socket; distinct by (stack, cfg, op, warm?, socket-call index, fault kind, delivery schedule).")
ASSUMPTIONS = [
    "RefServer is a model of memcached's text protocol; replies are produced synchronously at sendall and delivered under the chosen schedule",
    "a reply-line fault replaces the whole reply of one command by one line (a server that appends junk after a complete reply is outside the statement)",
    "sendall is atomic (as it is for the client)",
]
MIN_NONTRIVIAL = {"quick": 8000, "thorough": 100000}
REQUIRED_COUNTERS = ["faults_fired", "probe_recv_calls", "tag_checked_bytes"]
SHARDS = {"quick": 16, "thorough": 16}
TIMEOUT = {"quick": 900, "thorough": 7200}

STACKS = [
    ("client", [("mc1", 11211)]),
    ("pooled", [("mc1", 11211)]),
    ("hash", [("mc1", 11211)]),
    ("hashpooled", [("mc1", 11211)]),
    ("hash", [("mc1", 11211), ("mc2", 11211)]),
]
CFGS = [{}, {"default_noreply": False}, {"ignore_exc": True}]


def base_case(stack, servers, cfg, label, op, warm, seg):
    ops = []
    if warm:
        ops.append(("get", ("h3",), {}))
    ops.append(op)
    k = (len(label) + warm) % len(catalogue.PROBES)
    probes = catalogue.PROBES[k:] + catalogue.PROBES[:k]
    ops.extend(p for _, p in probes)
    return {"stack": stack, "servers": servers, "cfg": cfg, "label": label, "ops": ops,
            "faulted": 1 if warm else 0, "faults": {}, "seg": seg}


def execute(case, res=None):
    """Run one history; returns (violations[(key,msg)], world, probe_io)"""
    obs = history.execute(case)
    w = obs.world
    faulted = case["faulted"]
    op_method = case["ops"][faulted][0]
    fclass = history.fault_class(case["faults"])
    viol = []
    probe_io = 0
    for rec in obs.calls:
        i, op, out = rec["i"], rec["op"], rec["out"]
        if i > faulted:
            probe_io += rec["recv"]
        # UNREAD_REPLY: normal return with own reply bytes still queued on an open socket
        if out[0] == "ret":
            for sid, n in rec["unread"]:
                viol.append(("UNREAD_REPLY:%s:%s:%s" % (w.stack, op[0], fclass if i == faulted else "probe"),
                             "call %d %s returned %r leaving %d reply byte(s) unread on open socket %d"
                             % (i, op[0], out[1], n, sid)))
        for kind, detail in rec["alarms"]:
            if kind in ("STALE_READ", "BLOCKED_RECV"):
                viol.append(("%s:%s:%s:after-%s:%s" % (kind, w.stack, op[0], op_method, fclass),
                             "%s during call %d %s (outcome %r): %s" % (kind, i, op[0], out[:2], detail)))
    return viol, w, probe_io


_kclass = history.kclass


def plans_for(case, tier, rng):
    """Enumerate single-fault plans from the fault-free trace of the faulted call."""
    viol, w, _ = execute(case)
    obs = history.Obs()
    obs.net = w.net
    plans, calls = history.single_fault_plans(case, obs, tier, rng)
    return viol, plans, calls


def run_group(res, stack, servers, cfg, label, op, warm, tier, rng):
    segs = [("whole",), ("random", rng.randrange(1 << 30))]
    if tier == "thorough":
        segs.append(("single",))
    for seg in segs:
        case = base_case(stack, servers, cfg, label, op, warm, seg)
        viol, plans, calls = plans_for(case, tier, rng)
        res.count("fault_free_histories")
        for key, msg in viol:
            res.violation(key, "fault-free history: " + msg, case)
        res.case(None, None)
        extra = []
        if tier == "thorough" and len(plans) > 1:
            for _ in range(min(40, len(plans))):
                a, b = rng.sample(plans, 2)
                d = dict(a)
                d.update(b)
                if len(d) == 2:
                    extra.append(d)
        for plan in plans + extra:
            c = dict(case)
            c["faults"] = plan
            viol, w, probe_io = execute(c)
            fired = len(w.net.fired)
            res.count("faults_fired", fired)
            res.count("probe_recv_calls", probe_io)
            res.count("tag_checked_bytes", w.net.counts.get("bytes_delivered", 0))
            res.count("sockets_created", len(w.net.socks))
            for k in w.net.fired:
                res.count("fired:" + _kclass(k[3]))
            nt = None
            if fired and probe_io:
                nt = (stack, len(servers), tuple(sorted(cfg.items())), label, warm,
                      tuple(sorted(plan.items())), seg[0])
            res.case(nt, {"stack": stack, "op": label, "faults": repr(plan), "seg": seg[0],
                          "outcomes": [o[:2] for o in w.outcomes]} if res.evaluations % 4001 == 0 else None)
            for key, msg in viol:
                res.violation(key, msg, c)


def random_histories(res, tier, rng, count):
    ops_all = catalogue.ops_catalogue()
    for _ in range(count):
        stack, servers = rng.choice(STACKS)
        cfg = rng.choice(CFGS)
        n = rng.randint(3, 10)
        ops = []
        for _ in range(n):
            label, op = rng.choice(ops_all)
            if catalogue.supports(stack, op[0]):
                ops.append(op)
        ops.extend(p for _, p in catalogue.PROBES)
        case = {"stack": stack, "servers": servers, "cfg": cfg, "label": "random", "ops": ops,
                "faulted": 0, "faults": {}, "seg": ("random", rng.randrange(1 << 30))}
        # fault-free run to learn the trace, then 1-3 faults at random socket calls
        viol, w, _ = execute(case)
        by = driver.socket_calls_by_call(w.net)
        cands = [(ci, idx, typ) for ci, lst in by.items() if ci is not None and ci < n for idx, typ, sid in lst]
        plan = {}
        for ci, idx, typ in rng.sample(cands, min(len(cands), rng.randint(1, 3))):
            kinds = list(fakenet.KINDS[typ])
            if typ == fakenet.T_SENDALL:
                nrep, nbytes = w.net.sendinfo.get((ci, idx), (0, 0))
                if nrep:
                    kinds.append(("rline", rng.randrange(nrep), rng.choice(list(fakenet.REPLY_LINE_VARIANTS))))
                if nbytes:
                    kinds.append(("trunc", rng.randrange(nbytes), rng.choice(("eof", "stall"))))
            plan[(ci, idx)] = rng.choice(kinds)
        c = dict(case)
        c["faults"] = plan
        c["faulted"] = min(ci for ci, _ in plan) if plan else 0
        viol, w, probe_io = execute(c)
        res.count("random_histories")
        res.count("faults_fired", len(w.net.fired))
        res.count("probe_recv_calls", probe_io)
        res.count("tag_checked_bytes", w.net.counts.get("bytes_delivered", 0))
        nt = ("rand", stack, tuple(o[0] for o in ops), tuple(sorted(plan.items()))) if w.net.fired and probe_io else None
        res.case(nt)
        for key, msg in viol:
            res.violation(key, msg, c)


def groups(tier):
    out = []
    for si, (stack, servers) in enumerate(STACKS):
        for cfg in CFGS:
            for label, op in catalogue.ops_catalogue():
                if not catalogue.supports(stack, op[0]):
                    continue
                for warm in (0, 1):
                    out.append((stack, servers, cfg, label, op, warm))
    return out


def shard(tier, seed, idx, n):
    res = common.Result()
    rng = random.Random(seed * 1000003 + idx)
    gs = groups(tier)
    for gi, g in enumerate(gs):
        if gi % n != idx:
            continue
        run_group(res, *g, tier, random.Random(seed * 7919 + gi))
    random_histories(res, tier, rng, 150 if tier == "quick" else 6000)
    res.extra["groups_total"] = len(gs) if idx == 0 else 0
    res.extra["exhaustive"] = True
    res.extra["exhaustive_part"] = "single-fault plans per (stack, cfg, op, warm-up, schedule) group; two-fault plans and random histories are sampled"
    return res


def replay(case):
    res = common.Result()
    viol, w, probe_io = execute(case)
    res.case(("replay",))
    res.count("faults_fired", len(w.net.fired))
    for key, msg in viol:
        res.violation(key, msg, case)
    print("outcomes:", w.outcomes)
    print("alarms:", w.net.alarms)
    return res
