"""C02 - requests are well-formed memcached commands; arguments cannot inject.

Monitor: every byte passed to sendall() on the injected socket module is read by a strict
server-grade parser (RefServer's reader: exact token separation, key legality, numeric
ranges, data block length + CRLF, nothing between commands) and compared with the commands
an independent intended-command builder derives from the call's arguments alone.
Verdict per call: input error with zero bytes sent, or parsed == intended and nothing more."""
import random

from vk import common, driver, intent, refs

PROPERTY = "C02"
LEVEL = "exploration"
RULE = ("every key-taking operation x keys (all byte classes at every position of short keys, one bad byte at first/middle/last "
        "of long keys, empty and whitespace-only keys, keys that are protocol text, lengths 249/250/251 with/without prefix, "
        "str/bytes, unicode on/off) x values with protocol text / str / int x integer arguments over protocol ranges and "
        "non-integers x one bad key at each position of multi-key calls x Client/PooledClient/HashClient(1,2 servers). "
        "Non-trivial = key or an argument outside [A-Za-z0-9]{1,20}/defaults; distinct by the full call.")
ASSUMPTIONS = [
    "the strict reader is stricter than memcached itself (exactly one space between tokens, keys without 00/09-0d/20, decimal ranges)",
    "raw_command and stats arguments are not commands built from keys and are not generated; bool-as-int, negative delta/delay, non-integer flags are outside the statement",
]
MIN_NONTRIVIAL = {"quick": 15000, "thorough": 300000}
REQUIRED_COUNTERS = ["calls_with_bytes_parsed", "input_errors_with_nothing_sent", "commands_parsed"]
SHARDS = {"quick": 16, "thorough": 16}
TIMEOUT = {"quick": 900, "thorough": 7200}

KEY_OPS = ["set", "add", "replace", "append", "prepend", "cas", "get", "gets", "gat", "gats", "delete",
           "incr", "decr", "touch", "get_many", "gets_many", "set_many", "delete_many",
           "__setitem__", "__getitem__", "__delitem__"]
STACKS = [("client", [("mc1", 11211)]), ("pooled", [("mc1", 11211)]), ("hash", [("mc1", 11211)]),
          ("hash", [("mc1", 11211), ("mc2", 11211)])]

BAD_BYTES = [0x00, 0x09, 0x0A, 0x0B, 0x0C, 0x0D, 0x20]
ODD_BYTES = [0x01, 0x1C, 0x1F, 0x7F, 0x80, 0x85, 0xA0, 0xFF]


def interesting_keys(tier, rng):
    ks = [b"", "", b" ", "  ", b"\t", b"\r\n", "\r\n", b"\n", b"\x0b", b"\x0c", b"\x00", b" \t\r\n",
          b"a b", b"a\r\nb", "a 0 0 1\r\nx\r\nflush_all", b"k\r\nflush_all\r\n", b"a\x00b", "key with space",
          b"k noreply", b"noreply", b"get", "a\tb", "a\x1cb", "a\x85b", "a\xa0b", "é", "snow☃", "k" * 249, "k" * 250,
          "k" * 251, b"k" * 250, b"k" * 251, "é" * 125, "é" * 126, "€" * 83 + "k", "€" * 84, b"\xff\xfe", b"a\x7fb", b"ok-key",
          "ok", b"x" * 100, b"1", "0"]
    for b in BAD_BYTES + ODD_BYTES:
        for pos in ("first", "mid", "last"):
            base = bytearray(b"abcdefgh")
            base[{"first": 0, "mid": 4, "last": 7}[pos]] = b
            ks.append(bytes(base))
        long = bytearray(b"L" * 240)
        long[120] = b
        ks.append(bytes(long))
    # all 1- and 2-byte keys over the byte classes
    cl = [0x00, 0x09, 0x0A, 0x0B, 0x0C, 0x0D, 0x20, 0x01, 0x61, 0x7F, 0x80]
    for a in cl:
        ks.append(bytes([a]))
        for b in cl:
            ks.append(bytes([a, b]))
            if tier == "thorough":
                for c in cl:
                    ks.append(bytes([a, b, c]))
    for _ in range(40 if tier == "quick" else 3000):
        n = rng.choice((1, 3, 8, 40, 200, 250, 251, 260))
        ks.append(bytes(rng.choice((rng.randrange(256), rng.choice(b"abcdefXYZ0189"))) for _ in range(n)))
    return ks


VALUES = [b"v", b"", b"\r\n", b"END\r\n", b"a\r\nset x 0 0 1\r\ny\r\n", b"VALUE k 0 1\r\nx\r\nEND\r\n", b"\x00\xff" * 10,
          b"x" * 5000, "text", "héllo", 12345, -7, 10 ** 30, b" noreply", "1 noreply",
          # 'other' values go on the wire as their str() text (the length announced is the length of that text)
          bytearray(b"ba"), memoryview(b"mview"), memoryview(__import__("array").array("d", [1.0, 2.0])), 2.5, None, (1, 2)]
EXPIRES = [0, 1, -1, 2 ** 31 - 1, 2 ** 31 + 1, 2 ** 63 - 1, -(2 ** 63), 2592001]
BAD_INTS = [None, 1.5, "1", b"1", "1 noreply", [1]]
FLAGS = [None, 0, 1, 2 ** 16, 2 ** 32 - 1]
CAS = [0, 1, 2 ** 64 - 1, "5", b"7", "18446744073709551615", "x", b"1 2", "-1", -1, "1\r\n", None, 1.0, "１"]
DELTAS = [0, 1, 2 ** 64 - 1, 2 ** 32]
CFGS = [{}, {"key_prefix": b"p:"}, {"default_noreply": False}, {"allow_unicode_keys": True},
        {"allow_unicode_keys": True, "key_prefix": b"P" * 200}, {"encoding": "utf8"}, {"key_prefix": b"pre fix"},
        {"serde": "strserde"}]


class StrSerde:
    """A serde that returns text (the client must encode it)."""

    def serialize(self, key, value):
        if isinstance(value, bytes):
            return value.decode("latin-1"), 3
        return value, 4

    def deserialize(self, key, value, flags):
        return value


def build_call(op, key, rng, vary):
    """-> (args, kwargs) ; vary selects which argument is unusual"""
    nr = rng.choice((None, True, False))
    kw = {} if nr is None else {"noreply": nr}
    val = rng.choice(VALUES) if vary == "value" else b"val"
    exp = rng.choice(EXPIRES) if vary == "expire" else (rng.choice(BAD_INTS) if vary == "badint" else 0)
    fl = rng.choice(FLAGS) if vary == "flags" else None
    if op in ("set", "add", "replace", "append", "prepend"):
        kw.update(expire=exp)
        if fl is not None:
            kw.update(flags=fl)
        return (key, val), kw
    if op == "cas":
        kw.update(expire=exp)
        cas = rng.choice(CAS) if vary in ("cas", "badint") else 42
        return (key, val, cas), kw
    if op in ("get", "gets", "__getitem__"):
        return (key,), {}
    if op in ("gat", "gats"):
        return (key,), {"expire": exp}
    if op == "delete":
        return (key,), kw
    if op in ("incr", "decr"):
        d = rng.choice(DELTAS) if vary == "delta" else (rng.choice(BAD_INTS) if vary == "badint" else 1)
        return (key, d), kw
    if op == "touch":
        kw.update(expire=exp)
        return (key,), kw
    if op == "__setitem__":
        return (key, val), {}
    if op == "__delitem__":
        return (key,), {}
    raise ValueError(op)


def make_world(stack, servers, cfg):
    cfgl = dict(cfg)
    spec = {"stack": stack, "servers": servers, "cfg": {k: v for k, v in cfgl.items() if k != "serde"}, "prefill": {}}
    w = driver.World(spec)
    if cfgl.get("serde") == "strserde":
        _set_serde(w.obj, StrSerde())
    w.net.keep_sent = True
    return w


def catalogue_supports(stack, op):
    from vk import catalogue
    return catalogue.supports(stack, op)


def run_call(res, stack, servers, cfg, op, args, kw, tag, w=None, callno=0, case=None):
    """one public call, judged on the bytes it wrote; with w given the call runs on that (already used) client"""
    cfgl = dict(cfg)
    own = w is None
    if own:
        w = make_world(stack, servers, cfg)
    net = w.net
    s0 = len(net.sentlog)
    m0 = {id(srv): (len(srv.cmdlog), len(srv.malformed)) for srv in w.servers.values()}
    out = w.call(callno, (op, args, kw))
    if own:
        w.close()
    sent = b"".join(b for _, _, b in net.sentlog[s0:])
    cmds = []
    malformed = []
    leftovers = []
    for srv in w.servers.values():
        c0, ml0 = m0[id(srv)]
        cmds.extend(c.sig() for c in srv.cmdlog[c0:])
        malformed.extend(srv.malformed[ml0:])
        leftovers.extend(s.buf for s in srv.sessions if s.buf)
    legal, want = intent.intended(op, args, kw, cfgl)
    if case is None:
        case = (stack, len(servers), sorted(cfgl.items()), op, args, kw)
    res.count("commands_parsed", len(cmds))
    multi = op in ("get_many", "gets_many", "set_many", "delete_many")
    is_input_err = out[0] == "exc" and out[1] == "MemcacheIllegalInputError"
    if is_input_err:
        if sent and stack.startswith("hash") and multi:
            pass        # 'nothing at all is sent' is demanded of Client/PooledClient only; what was sent is parsed below
        elif sent:
            res.violation("input-error-after-sending:%s:%s" % (stack, op),
                          "%s raised MemcacheIllegalInputError after writing %r" % (op, sent[:80]), case)
        else:
            res.count("input_errors_with_nothing_sent")
        if not sent:
            return
    if sent:
        res.count("calls_with_bytes_parsed")
    if malformed or leftovers:
        why = malformed[0][1] if malformed else "incomplete command left in the server's buffer"
        raw = malformed[0][0] if malformed else leftovers[0][:80]
        res.violation("malformed-on-wire:%s" % _mech(stack, op, args, cfgl, tag),
                      "%s%r %r wrote bytes a strict parser rejects (%s): %r ; outcome %r"
                      % (op, _sh(args), kw, why, raw[:80], out[:2]), case)
        return
    if not legal:
        if stack.startswith("hash") and multi:
            # statement: 'nothing at all is sent' is demanded of Client/PooledClient only; what is sent must be well-formed
            return
        if sent:
            res.violation("sent-despite-illegal-input:%s" % _mech(stack, op, args, cfgl, tag),
                          "%s%r %r: input is illegal per the statement but %r was written; outcome %r"
                          % (op, _sh(args), kw, sent[:80], out[:2]), case)
        elif out[0] == "ret":
            # nothing written and no error: acceptable only for calls that legitimately send nothing
            res.violation("illegal-input-silently-accepted:%s:%s:%s" % (stack, op, tag),
                          "%s%r returned %r without error and without sending" % (op, _sh(args), out[1]), case)
        elif not is_input_err:
            res.violation("wrong-exception-for-illegal-input:%s:%s:%s" % (stack, op, out[1]),
                          "%s%r %r raised %s (%s) instead of an input error" % (op, _sh(args), kw, out[1], out[2]), case)
        return
    # legal input: the parsed commands must be exactly the intended ones
    if out[0] == "exc" and not sent:
        return      # a legal call refused before sending is C20's subject, not C02's
    got = list(cmds)
    exp = list(want)
    if stack.startswith("hash") and multi:
        got = sorted(_flatten(got), key=repr)
        exp = sorted(_flatten(exp), key=repr)
    if got != exp:
        res.violation("parsed-differs-from-intended:%s:%s:%s" % (stack, op, tag),
                      "%s%r %r: server parsed %r, intended %r" % (op, _sh(args), kw, _sh(got), _sh(exp)), case)


def _mech(stack, op, args, cfg, tag):
    """mechanism key: by key class when a key is the culprit, else by (stack, op, varied argument)"""
    keys = []
    if op in ("get_many", "gets_many", "delete_many", "set_many"):
        try:
            keys = list(args[0])
        except Exception:
            keys = []
    elif args:
        keys = [args[0]]
    for k in keys:
        if not isinstance(k, (str, bytes)):
            continue
        legal, wire = refs.key_legal(k, cfg.get("allow_unicode_keys", False), cfg.get("key_prefix", b""))
        if legal and wire == b"":
            return "empty-key"
        if not legal:
            kb = k.encode("utf8", "replace") if isinstance(k, str) else k
            wire = cfg.get("key_prefix", b"") + kb
            if wire and all(b in refs.ILLEGAL_KEY_BYTES for b in wire):
                return "whitespace-only-key"
            return "illegal-key:%s:%s" % (stack, op)
    return "%s:%s:%s" % (stack, op, tag)


def _flatten(sigs):
    out = []
    for s in sigs:
        if s[0] in (b"get", b"gets") and len(s[1]) != 1:
            out.extend((s[0], (k,)) + s[2:] for k in s[1])
        else:
            out.append(s)
    return out


def _sh(x):
    r = repr(x)
    return r if len(r) < 160 else r[:150] + "...'"


def _set_serde(obj, serde):
    import pymemcache.client.base as base
    if isinstance(obj, (base.Client, base.PooledClient)):
        obj.serde = serde
    else:
        obj.default_kwargs["serde"] = serde
        for c in obj.clients.values():
            c.serde = serde


def shard(tier, seed, idx, n):
    res = common.Result()
    rng = random.Random(seed * 65537 + 2)
    keys = interesting_keys(tier, rng)
    work = 0
    single_ops = [o for o in KEY_OPS if o not in ("get_many", "gets_many", "set_many", "delete_many")]
    # 0. the very first calls of a fresh process (every shard is one): a caller's slip outside the statement comes first,
    #    then well-formed calls whose integers equal the slipped value (process-wide memoisation keyed by equality)
    slips = [("set", ("ok", b"v", False), {}), ("set", ("ok", b"v", True), {"noreply": False}), ("incr", ("ok", True), {}),
             ("touch", ("ok", False), {}), ("set", ("ok", b"v"), {"flags": True, "noreply": False}), ("cas", ("ok", b"v", True), {"noreply": False}),
             ("decr", ("ok", False), {}), ("flush_all", (True,), {})]
    first_plan = [("$unjudged", slips[idx % len(slips)], {}),
                  ("set", ("k1", b"v"), {"expire": 0, "noreply": False}), ("set", ("k2", b"w"), {"expire": 1, "flags": 1, "noreply": False}),
                  ("incr", ("k1", 1), {"noreply": False}), ("decr", ("k1", 0), {"noreply": False}), ("touch", ("k1",), {"expire": 1, "noreply": False}),
                  ("cas", ("k1", b"x", 1), {"expire": 0, "noreply": False}), ("gat", ("k1",), {"expire": 0}), ("set", ("k3", b""), {"noreply": False}),
                  ("flush_all", (0,), {"noreply": False})]
    run_sequence(res, "client", [("mc1", 11211)], {}, None, tier, plan=first_plan)
    res.count("fresh_process_slip_first_sequences")
    # 1. single-key ops x interesting keys x stacks x configs
    for stack, servers in STACKS:
        for cfg in CFGS:
            for op in single_ops:
                if stack.startswith("hash") and op.startswith("__"):
                    continue
                for key in keys:
                    work += 1
                    if work % n != idx:
                        continue
                    r = random.Random(seed * 31 + work)
                    if tier == "quick" and r.random() < 0.75 and stack != "client":
                        continue
                    if tier == "quick" and cfg and r.random() < 0.6:
                        continue
                    args, kw = build_call(op, key, r, "key")
                    run_call(res, stack, servers, cfg, op, args, kw, "key")
                    res.case((stack, len(servers), sorted(cfg.items()), op, args, sorted(kw.items())),
                             {"stack": stack, "cfg": repr(cfg), "op": op, "args": _sh(args), "kw": repr(kw)}
                             if res.evaluations % 3001 == 0 else None)
    # 2. argument variations on legal keys
    for stack, servers in STACKS:
        for cfg in CFGS:
            for op in single_ops:
                if stack.startswith("hash") and op.startswith("__"):
                    continue
                for vary in ("value", "expire", "flags", "cas", "delta", "badint"):
                    for rep in range(6 if tier == "quick" else 60):
                        work += 1
                        if work % n != idx:
                            continue
                        r = random.Random(seed * 37 + work)
                        key = r.choice(["k1", b"k2", "key-3", b"K" * 249 if not cfg.get("key_prefix") else b"kk"])
                        args, kw = build_call(op, key, r, vary)
                        run_call(res, stack, servers, cfg, op, args, kw, vary)
                        res.case((stack, len(servers), sorted(cfg.items()), op, repr(args), sorted(kw.items(), key=repr)))
    # 3. multi-key calls with one bad key at each position
    goods = ["g1", b"g2", "g3", "g4"]
    bads = [b"", b" ", b"a b", b"a\r\nb", "k" * 251, b"\x00", "é", b"\t", b"\r\n", "k" * 249, b"B" * 250, "k" * 51, b"P" * 51]
    for stack, servers in STACKS:
        for cfg in CFGS[:5]:
            for op in ("get_many", "gets_many", "set_many", "delete_many"):
                for size in (1, 2, 3, 4, 70, 130):
                    for pos in (range(-1, size) if size <= 4 else (-1, 0, 63, 64, 65, size - 1)):
                        for bad in (bads if pos >= 0 else [None]):
                            work += 1
                            if work % n != idx:
                                continue
                            ks = list(goods[:size]) if size <= 4 else ["g%d" % j for j in range(size)]
                            if size > 4 and bad not in (None, b"a b", "k" * 251, b"\r\n"):
                                continue
                            if pos >= 0:
                                ks[pos] = bad
                            r = random.Random(seed * 41 + work)
                            coll = r.choice(("list", "tuple")) if op != "set_many" else "dict"
                            if op == "set_many":
                                a = ({k: r.choice([b"v", b"\r\n", "txt", 5]) for k in ks},)
                                kw = r.choice(({}, {"noreply": False}, {"noreply": True, "expire": 9}))
                            elif op == "delete_many":
                                a = (ks if coll == "list" else tuple(ks),)
                                kw = r.choice(({}, {"noreply": False}))
                            else:
                                a = (ks if coll == "list" else tuple(ks),)
                                kw = {}
                            run_call(res, stack, servers, cfg, op, a, kw, "multikey")
                            res.case((stack, len(servers), sorted(cfg.items()), op, repr(a), sorted(kw.items())))
    # 3b. batches that are large in BYTES (a client that flushes every so many KiB while still formatting): a bad key or a
    #     value that cannot be encoded comes after tens / hundreds of KiB of well-formed commands
    for stack, servers in STACKS:
        for cfg in ({}, {"key_prefix": b"p:"}):
            for nitems, vsize in ((5, 30000), (3, 70000), (40, 4000), (2, 200000), (300, 600)):
                for late in ("bad-key-last", "bad-key-middle", "unencodable-value-last", "unencodable-value-middle", None):
                    for nr in (False, True):
                        work += 1
                        if work % n != idx:
                            continue
                        r = random.Random(seed * 47 + work)
                        if tier == "quick" and stack != "client" and r.random() < 0.5:
                            continue
                        items = [("b%d" % j, bytes([97 + j % 26]) * vsize) for j in range(nitems)]
                        at = nitems - 1 if late and late.endswith("last") else nitems // 2
                        if late and late.startswith("bad-key"):
                            items[at] = (r.choice([b"a b", "k" * 251, b"\r\n", b""]), items[at][1])
                        elif late:
                            items[at] = (items[at][0], "caf\u00e9" * 10)           # not ASCII: cannot be encoded with the default encoding
                        run_call(res, stack, servers, cfg, "set_many", (dict(items),), {"noreply": nr}, "bigbatch")
                        res.case((stack, len(servers), sorted(cfg.items()), "set_many", nitems, vsize, late, nr))
                        res.count("large_batches_by_bytes")
            for nkeys in (300, 600):
                for op in ("get_many", "gets_many", "delete_many"):
                    for late in ("bad-key-last", "bad-key-middle", None):
                        work += 1
                        if work % n != idx:
                            continue
                        ks = [("L%04d" % j) + "x" * 235 for j in range(nkeys)]         # 240-byte keys: 72 / 144 KiB of keys
                        if late:
                            ks[nkeys - 1 if late.endswith("last") else nkeys // 2] = "a b"
                        run_call(res, stack, servers, cfg, op, (ks,), {"noreply": False} if op == "delete_many" else {}, "bigbatch")
                        res.case((stack, len(servers), sorted(cfg.items()), op, nkeys, late))
                        res.count("large_batches_by_bytes")
    # 3c. values beyond the server's item limit are still the caller's command: the server refuses them (SERVER_ERROR), the
    #     client does not decide for it, with or without noreply
    for stack, servers in STACKS:
        for op in ("set", "add", "replace", "append", "prepend", "cas", "set_many"):
            for vsize in ((1 << 20) + 1, (2 << 20) + 3, (1 << 20) - 1):
                for nr in (True, False):
                    work += 1
                    if work % n != idx:
                        continue
                    r = random.Random(seed * 53 + work)
                    if tier == "quick" and (stack != "client" or op not in ("set", "set_many", "cas")) and r.random() < 0.7:
                        continue
                    big = b"Z" * vsize
                    if op == "set_many":
                        a = ({"small1": b"v", "huge": big, "small2": b"w"},)
                    elif op == "cas":
                        a = ("huge", big, b"7")
                    else:
                        a = ("huge", big)
                    run_call(res, stack, servers, {}, op, a, {"noreply": nr}, "oversize")
                    res.case((stack, len(servers), op, vsize, nr))
                    res.count("oversize_values")
    # 4. flush_all / cache_memlimit integers
    for stack, servers in STACKS[:2]:
        for v in [0, 1, 2 ** 31, None, 1.5, "1", b"1", "1 noreply"]:
            work += 1
            if work % n != idx:
                continue
            run_call(res, stack, servers, {}, "flush_all", (v,), {"noreply": False}, "delay")
            res.case((stack, "flush_all", repr(v)))
            if stack == "client":
                run_call(res, stack, servers, {}, "cache_memlimit", (v,), {}, "memlimit")
                res.case((stack, "cache_memlimit", repr(v)))
    # 4b. commands without a key: exactly the documented line and nothing more
    for stack, servers in STACKS[:2]:
        for op, a, kw in (("version", (), {}), ("quit", (), {}), ("shutdown", (), {}), ("shutdown", (True,), {}),
                          ("shutdown", (), {"graceful": True}), ("shutdown", (False,), {})):
            work += 1
            if work % n != idx:
                continue
            if not catalogue_supports(stack, op):
                continue
            run_call(res, stack, servers, {}, op, a, kw, "nokey")
            res.case((stack, op, repr(a), repr(kw)))
    # 4c. every operation with only its required arguments: the documented defaults (expire 0, delay 0, the configured
    #     noreply default) are what goes on the wire
    for stack, servers in STACKS:
        for cfg in ({}, {"default_noreply": False}, {"key_prefix": b"px:"}) + (({"key_prefix": "strpx:"},) if stack == "client" else ()):
            for op, a in (("get", ("k1",)), ("gets", ("k1",)), ("gat", ("k1",)), ("gats", ("k1",)), ("set", ("k1", b"v")),
                          ("add", ("k1", b"v")), ("replace", ("k1", b"v")), ("append", ("k1", b"v")), ("prepend", ("k1", b"v")),
                          ("cas", ("k1", b"v", b"7")), ("delete", ("k1",)), ("incr", ("k1", 1)), ("decr", ("k1", 1)),
                          ("touch", ("k1",)), ("flush_all", ()), ("set_many", ({"k1": b"v", "k2": b"w"},)),
                          ("delete_many", (["k1", "k2"],)), ("get_many", (["k1", "k2"],)), ("gets_many", (["k1"],))):
                work += 1
                if work % n != idx:
                    continue
                if not catalogue_supports(stack, op) or (op == "flush_all" and len(servers) > 1):
                    continue        # (flush_all on several servers is one command per server: not a single intended command)
                run_call(res, stack, servers, cfg, op, a, {}, "defaults")
                res.case((stack, len(servers), sorted(cfg.items()), op, "defaults"))
    # 5. sequences of calls on ONE client (validation must not depend on what the client did before), with stats /
    #    cache_memlimit arguments that reuse key tokens in between; prefix-prefixed keys and keys at the prefix boundary
    for stack, servers in STACKS:
        for ci, cfg in enumerate(CFGS + [{"ignore_exc": True}, {"key_prefix": b"app:", "ignore_exc": True}]):
            if cfg.get("ignore_exc") and stack != "client":
                continue        # PooledClient/HashClient document ignore_exc as 'any error is a miss' (not judged here)
            for rep in range(3 if tier == "quick" else 40):
                work += 1
                if work % n != idx:
                    continue
                run_sequence(res, stack, servers, cfg, random.Random(seed * 43 + work), tier)
    res.extra["exhaustive"] = True
    res.extra["exhaustive_part"] = "all 1- and 2-byte keys over 11 byte classes on Client; one bad key at every position of 1..4-key calls"
    return res


def seq_plan(stack, cfg, rng, tier):
    prefix = cfg.get("key_prefix", b"")
    room = 250 - len(prefix)
    toks = ["items", "settings", "t1", b"t2", "k" * max(1, room), "k" * (room + 1), b"K" * max(1, room - 1) + b"\r",
            "bad key", b"", "ok"]
    if prefix:
        try:
            toks += [prefix + b"x", prefix.decode("ascii") + "y", prefix, prefix + prefix + b"z"]
        except UnicodeDecodeError:
            pass
    single = [o for o in KEY_OPS if o not in ("get_many", "gets_many", "set_many", "delete_many")
              and not (stack.startswith("hash") and o.startswith("__"))]
    plan = []
    for _ in range(rng.randrange(8, 30)):
        c = rng.random()
        tok = rng.choice(toks)
        if c < 0.06:
            # a caller's slip that is outside the statement (a bool where an integer belongs, e.g. noreply passed in
            # expire's position): not judged itself, but it must not change what LATER well-formed calls put on the wire
            plan.append(("$unjudged", rng.choice([("set", ("ok", b"v", False), {}), ("set", ("ok", b"v", True), {"noreply": False}),
                                                  ("incr", ("ok", True), {}), ("touch", ("ok", False), {}),
                                                  ("set", ("ok", b"v"), {"flags": True, "noreply": False}),
                                                  ("cas", ("ok", b"v", True), {"noreply": False})]), {}))
        elif c < 0.2 and isinstance(tok, str) and tok and " " not in tok and len(tok) < 200:
            plan.append(("stats", (tok,), {}))            # not judged: its argument is not a key
        elif c < 0.25 and stack == "client":
            plan.append(("cache_memlimit", (rng.choice([64, 128]),), {}))
        elif c < 0.45:
            op = rng.choice(("get_many", "gets_many", "delete_many", "set_many"))
            ks = [rng.choice(toks) for _ in range(rng.randrange(1, 4))]
            ks = list(dict.fromkeys(k for k in ks if isinstance(k, (str, bytes))))
            # never spell one wire key both as str and bytes in one call
            seen, uniq = set(), []
            for k in ks:
                kb = k.encode() if isinstance(k, str) else k
                if kb not in seen:
                    seen.add(kb)
                    uniq.append(k)
            if op == "set_many":
                plan.append((op, ({k: b"v" for k in uniq},), rng.choice(({}, {"noreply": False}))))
            else:
                plan.append((op, (uniq,), {} if op != "delete_many" else rng.choice(({}, {"noreply": False}))))
        else:
            op = rng.choice(single)
            a, kw = build_call(op, tok, rng, "key")
            plan.append((op, a, kw))
    return plan


def run_sequence(res, stack, servers, cfg, rng, tier, plan=None):
    plan = plan if plan is not None else seq_plan(stack, cfg, rng, tier)
    w = make_world(stack, servers, cfg)
    case = ("sequence", stack, len(servers), sorted(cfg.items()), plan)
    try:
        for i, (op, a, kw) in enumerate(plan):
            if op == "stats":
                w.call(i, (op, a, kw))
                continue
            if op == "$unjudged":
                w.call(i, a)
                try:
                    w.obj.close()       # a fire-and-forget slip may leave the server's ERROR unread: start the next call afresh
                except Exception:
                    pass
                for srv in w.servers.values():
                    del srv.malformed[:]          # whatever that call wrote is its own business
                    for ses in srv.sessions:
                        ses.buf = b""
                res.count("unjudged_slips_in_sequences")
                continue
            before = res.counters.get("violations_seen", 0)
            run_call(res, stack, servers, cfg, op, a, kw, "in-sequence", w=w, callno=i, case=case)
            res.case(("seq", stack, len(servers), sorted(cfg.items()), i, op, repr(a), sorted(kw.items(), key=repr)))
            if res.counters.get("violations_seen", 0) > before or any(srv.malformed for srv in w.servers.values()):
                break
        res.count("call_sequences_on_one_client")
    finally:
        w.close()


def replay(case):
    res = common.Result()
    if case[0] == "sequence":
        _, stack, nserv, cfg, plan = case
        run_sequence(res, stack, [("mc1", 11211), ("mc2", 11211)][:nserv], dict(cfg), random.Random(0), "quick", plan=plan)
        for c in REQUIRED_COUNTERS:
            res.count(c)
        res.nontrivial.update({1, 2})
        return res
    stack, nserv, cfg, op, args, kw = case
    servers = [("mc1", 11211), ("mc2", 11211)][:nserv]
    run_call(res, stack, servers, dict(cfg), op, args, dict(kw) if not isinstance(kw, dict) else kw, "replay")
    res.case(case)
    for c in REQUIRED_COUNTERS:
        res.count(c)
    return res
