"""C17 - RetryingClient retries exactly as configured.

Monitor: event log shared by a scripted inner client (every invocation with its argument
objects) and a recorder substituted for retrying.sleep; an independent decision function
written from the statement predicts the whole event sequence, the returned object (identity)
and the raised object (identity).  Exhaustive over the decision table."""
import itertools

from vk import common

PROPERTY = "C17"
LEVEL = "exploration"
RULE = ("exhaustive: attempts 1..4 (thorough 1..5) x all outcome sequences of that length over {ok, Base, Sub1(Base), "
        "Sub2(Base), Unrelated} x all disjoint (retry_for, do_not_retry_for) subset pairs x spellings tuple/list/set/None x "
        "retry_delay {0, 0.25}; every overlapping pair and other invalid configurations must be rejected at construction; "
        "outcomes that are not Exceptions (KeyboardInterrupt, SystemExit, a BaseException subclass) are never retried; sessions of 2-4 "
        "calls through one wrapper; two threads with one call each on one wrapper, every schedule with <=2 (thorough 3) preemptions at "
        "line granularity inside retrying.py; methods reached through __getattr__ and the item protocol. Non-trivial = sequence contains >=1 exception; distinct by the full case.")
ASSUMPTIONS = ["which exception type rejects an invalid configuration is not demanded (ValueError or TypeError)",
               "'exception' is read as the statement's last sentence uses it: a subclass of Exception (KeyboardInterrupt in a list is a "
               "'non-exception class' and rejected); an outcome that is a BaseException only matches no configuration and is not retried"]
MIN_NONTRIVIAL = {"quick": 20000, "thorough": 200000}
REQUIRED_COUNTERS = ["inner_invocations", "sleeps_observed", "invalid_configs_rejected"]
SHARDS = {"quick": 8, "thorough": 16}


class Base(Exception):
    pass


class Sub1(Base):
    pass


class Sub2(Base):
    pass


class Unrelated(Exception):
    pass


class Interrupt(BaseException):
    """a gevent-style timeout: not an Exception, so no retry configuration can name it (the constructor rejects such classes)"""


CLASSES = {"Base": Base, "Sub1": Sub1, "Sub2": Sub2, "Unrelated": Unrelated}
NAMES = list(CLASSES)
# outcomes that are not 'exceptions' in the statement's own vocabulary ('non-exception classes' are rejected as configuration):
# they are not retried under any configuration and reach the caller from the attempt that raised them
NON_EXCEPTIONS = {"KbInt": KeyboardInterrupt, "SysExit": SystemExit, "Interrupt": Interrupt}
ALL_CLASSES = dict(CLASSES, **NON_EXCEPTIONS)
OUTCOMES = ["ok"] + NAMES + ["KbInt"]


class Inner:
    """Scripted inner client: each invocation consumes the next outcome."""

    def __init__(self, script, events):
        self.script = list(script)
        self.events = events
        self.raised = []
        self.returned = []

    # how a scripted exception is raised: bare, `raise e from <an exception of another scripted class>`, or while an exception of
    # another scripted class is being handled.  The statement decides on the class of the raised exception alone, so the
    # prediction is the same in all three (found by C17-r12-1: a retry decision that walks __cause__/__context__)
    chain = None
    chained = 0
    clock = None        # when set: every invocation takes `takes` seconds of (virtual) time before it returns or raises
    takes = 0.0

    def _step(self, name, args, kwargs):
        self.events.append(("call", name, args, kwargs))
        if self.clock is not None:
            self.clock.advance(self.takes)
        o = self.script.pop(0) if self.script else "ok"
        if o == "ok":
            r = object()
            self.returned.append(r)
            return r
        e = ALL_CLASSES[o]("scripted %s" % o)
        self.raised.append(e)
        if Inner.chain and o in NAMES:
            other = CLASSES[NAMES[(NAMES.index(o) + 1 + len(self.raised)) % len(NAMES)]]("an earlier, unrelated failure")
            Inner.chained += 1
            if Inner.chain == "cause":
                raise e from other
            try:
                raise other
            except Exception:
                raise e
        raise e

    def get(self, *a, **k):
        return self._step("get", a, k)

    def set(self, *a, **k):
        return self._step("set", a, k)

    def delete(self, *a, **k):
        return self._step("delete", a, k)

    def get_many(self, *a, **k):
        return self._step("get_many", a, k)


# every other command of the wrapped client (the wrapper must treat them all alike); real methods, as on a Client
OTHER_METHODS = ("incr", "decr", "append", "prepend", "add", "replace", "cas", "touch", "gets", "gat", "gats", "gets_many", "set_many",
                 "delete_many", "flush_all", "stats", "version", "quit", "set", "delete")


def _mk(name):
    def m(self, *a, **k):
        return self._step(name, a, k)
    m.__name__ = name
    return m


for _n in OTHER_METHODS:
    if _n not in vars(Inner):
        setattr(Inner, _n, _mk(_n))


def predict(attempts, seq, retry_for, dnr):
    """-> (n_calls, outcome 'ok'|'raise') per the statement."""
    rf = tuple(CLASSES[x] for x in retry_for)
    dn = tuple(CLASSES[x] for x in dnr)
    for a in range(1, attempts + 1):
        o = seq[a - 1]
        if o == "ok":
            return a, "ok"
        if o in NON_EXCEPTIONS:
            return a, "raise"
        exc_cls = CLASSES[o]
        retry = a < attempts and (not rf or issubclass(exc_cls, rf)) and not (dn and issubclass(exc_cls, dn))
        if not retry:
            return a, "raise"
    raise AssertionError


def spell(names, how):
    if not names and how == "none":
        return None
    cl = [CLASSES[x] for x in names]
    return {"tuple": tuple(cl), "list": list(cl), "set": set(cl), "none": tuple(cl)}[how]


def run_case(res, retrying, attempts, seq, rf, dn, how, delay, method):
    events = []
    inner = Inner(seq, events)
    case = (attempts, seq, rf, dn, how, delay, method)
    try:
        rc = retrying.RetryingClient(inner, attempts=attempts, retry_delay=delay,
                                     retry_for=spell(rf, how), do_not_retry_for=spell(dn, how))
    except Exception as e:
        res.violation("valid-config-rejected", "RetryingClient(attempts=%d, retry_for=%r, do_not_retry_for=%r as %s) raised %r"
                      % (attempts, rf, dn, how, e), case)
        return
    saved = retrying.sleep
    retrying.sleep = lambda d: events.append(("sleep", d))
    # attempts that take time: a third of the cases let every invocation last longer than retry_delay on a virtual clock that
    # is offered to retrying.py as its `time` global (the delay between attempts is retry_delay however long an attempt took)
    from vk.refserver import VClock
    restore_time = None
    if (attempts + len(rf) + len(dn) + len(method)) % 3 == 0:
        inner.clock = VClock()
        inner.takes = 2 * delay + 0.5
        restore_time = inner.clock.patch_module(retrying)       # (after `sleep` was replaced by the recorder above)
    a1, a2 = object(), object()
    out = None
    try:
        try:
            if method == "get":
                out = ("ret", rc.get(a1, default=a2))
                want_call = ("get", (a1,), {"default": a2})
            elif method == "get_many":
                out = ("ret", rc.get_many([a1, a2]))
                want_call = ("get_many", ([a1, a2],), {})
            elif method == "__setitem__":
                rc[a1] = a2
                out = ("ret", None)
                want_call = ("set", (a1, a2), {"noreply": True})
            elif method == "__delitem__":
                del rc[a1]
                out = ("ret", None)
                want_call = ("delete", (a1,), {"noreply": True})
            elif method == "__getitem__":
                out = ("ret", rc[a1])
                want_call = ("get", (a1,), {})
            else:
                want_call = (method, (a1, a2), {"noreply": False})
                out = ("ret", getattr(rc, method)(a1, a2, noreply=False))
        except BaseException as e:
            if not isinstance(e, Exception) and not any(e is x for x in inner.raised):
                raise
            out = ("exc", e)
            want_call = {"get": ("get", (a1,), {"default": a2}), "get_many": ("get_many", ([a1, a2],), {}),
                         "__setitem__": ("set", (a1, a2), {"noreply": True}), "__delitem__": ("delete", (a1,), {"noreply": True}),
                         "__getitem__": ("get", (a1,), {})}.get(method, (method, (a1, a2), {"noreply": False}))
    finally:
        if restore_time is not None:
            restore_time()
        retrying.sleep = saved
    ncalls, kind = predict(attempts, seq, rf, dn)
    calls = [e for e in events if e[0] == "call"]
    sleeps = [e for e in events if e[0] == "sleep"]
    res.count("inner_invocations", len(calls))
    res.count("sleeps_observed", len(sleeps))
    mech = "attempts=%d" % attempts
    if len(calls) != ncalls:
        res.violation("wrong-invocation-count", "%d invocations, statement says %d (seq %r retry_for %r do_not_retry_for %r attempts %d)"
                      % (len(calls), ncalls, seq[:attempts], rf, dn, attempts), case)
        return
    shape = [e[0] for e in events]
    want_shape = ["call"] + ["sleep", "call"] * (ncalls - 1)
    if shape != want_shape:
        res.violation("wrong-call-sleep-interleaving", "events %r, expected %r" % (shape, want_shape), case)
    if any(s[1] != delay for s in sleeps):
        res.violation("wrong-sleep-argument", "slept %r, retry_delay %r" % ([s[1] for s in sleeps], delay), case)
    for c in calls:
        if c[1] != want_call[0] or len(c[2]) != len(want_call[1]) or any(x is not y and x != y for x, y in zip(c[2], want_call[1])) \
                or c[3] != want_call[2] or any(c[3][k] is not v and c[3][k] != v for k, v in want_call[2].items()):
            res.violation("arguments-not-forwarded", "inner saw %r, expected %r" % (c[1:], want_call), case)
            break
    if kind == "ok":
        if method in ("get", "get_many") or method in OTHER_METHODS:
            if out[0] != "ret" or out[1] is not inner.returned[-1]:
                res.violation("result-not-first-success", "returned %r" % (out,), case)
        elif method == "__getitem__":
            if out[0] != "ret" or out[1] is not inner.returned[-1]:
                res.violation("result-not-first-success", "item get returned %r" % (out,), case)
        elif out[0] != "ret":
            res.violation("raised-despite-success", "%r" % (out,), case)
    else:
        if out[0] != "exc" or out[1] is not inner.raised[-1]:
            res.violation("raised-object-not-last-attempts", "outcome %r, last attempt raised %r" % (out, inner.raised[-1:]), case)


def run_session(res, retrying, attempts, seqs, rf, dn, how, delay):
    """several calls through ONE RetryingClient: every call has the full budget of attempts, whatever earlier calls used"""
    events = []
    script = []
    plan = []
    for seq in seqs:
        ncalls, kind = predict(attempts, seq, rf, dn)
        script.extend(seq[:ncalls])
        plan.append((ncalls, kind))
    inner = Inner(script, events)
    case = ("session", attempts, seqs, rf, dn, how, delay)
    try:
        rc = retrying.RetryingClient(inner, attempts=attempts, retry_delay=delay,
                                     retry_for=spell(rf, how), do_not_retry_for=spell(dn, how))
    except Exception as e:
        res.violation("valid-config-rejected", "RetryingClient(attempts=%d, retry_for=%r, do_not_retry_for=%r as %s) raised %r"
                      % (attempts, rf, dn, how, e), case)
        return
    saved = retrying.sleep
    retrying.sleep = lambda d: events.append(("sleep", d))
    try:
        for ci, (seq, (ncalls, kind)) in enumerate(zip(seqs, plan)):
            e0 = len(events)
            r0, x0 = len(inner.returned), len(inner.raised)
            key = object()
            try:
                out = ("ret", (rc.get if ci % 2 == 0 else rc.delete)(key))
            except BaseException as e:
                if not isinstance(e, Exception) and not any(e is x for x in inner.raised):
                    raise
                out = ("exc", e)
            ev = events[e0:]
            shape = [e[0] for e in ev]
            res.count("inner_invocations", shape.count("call"))
            res.count("sleeps_observed", shape.count("sleep"))
            res.count("session_calls")
            want_shape = ["call"] + ["sleep", "call"] * (ncalls - 1)
            where = "call %d of %d on one RetryingClient(attempts=%d, retry_for=%r, do_not_retry_for=%r), outcomes so far %r" % (
                ci + 1, len(seqs), attempts, rf, dn, [s_[:p_[0]] for s_, p_ in zip(seqs[:ci + 1], plan)])
            if shape != want_shape:
                res.violation("later-call-on-same-wrapper:wrong-events", "%s: events %r, expected %r" % (where, shape, want_shape), case)
                return
            if kind == "ok" and not (out[0] == "ret" and out[1] is inner.returned[-1] and len(inner.returned) == r0 + 1):
                res.violation("later-call-on-same-wrapper:wrong-result", "%s: outcome %r" % (where, out), case)
                return
            if kind == "raise" and not (out[0] == "exc" and out[1] is inner.raised[-1]):
                res.violation("later-call-on-same-wrapper:wrong-exception", "%s: outcome %r, last attempt raised %r"
                              % (where, out, inner.raised[-1:]), case)
                return
    finally:
        retrying.sleep = saved


def _codes_of(cls):
    out = []

    def walk(code):
        if code in out:
            return
        out.append(code)
        for c in code.co_consts:
            if hasattr(c, "co_code"):
                walk(c)
    for f in vars(cls).values():
        f = getattr(f, "__func__", f)
        if callable(f) and hasattr(f, "__code__"):
            walk(f.__code__)
    return out


def two_threads(res, retrying, tier):
    """Two threads, one RetryingClient (what wrapping a PooledClient invites), one call each, every schedule with at most
    P preemptions at line granularity inside retrying.py: each caller gets its own result / its own final exception, and
    the attempts and sleeps of the two calls do not mix."""
    from vk import sched as S
    S.install(_codes_of(retrying.RetryingClient), "line")
    scripts = [(("Base",), ("Sub1",)), (("Base", "ok"), ("Unrelated",)), (("ok",), ("Base", "Base")), (("Sub2", "Sub1"), ("Base", "ok"))]
    P = 2 if tier == "quick" else 3
    for attempts in (1, 2):
        for sa, sb in scripts:
            sa, sb = sa[:attempts], sb[:attempts]
            import heapq
            stack = [(0, 0, {})]          # fewest preemptions first
            tick = [0]

            def push(f_, u_):
                tick[0] += 1
                heapq.heappush(stack, (u_, tick[0], f_))
            executed = 0
            while stack and executed < (400 if tier == "quick" else 4000):
                used, _, forced = heapq.heappop(stack)
                sch = S.Sched(2, forced)
                inners, outs = [], {}
                events = {0: [], 1: []}

                class PerThreadInner:
                    # one scripted outcome list per calling thread (the threads use different keys)
                    def get(self_, key, *a, **k):
                        t = sch.me()
                        events[t].append("call")
                        script = (sa, sb)[t]
                        o = script[events[t].count("call") - 1] if events[t].count("call") <= len(script) else "ok"
                        if o == "ok":
                            r = ("result-of-thread", t, object())
                            outs.setdefault(("returned", t), []).append(r)
                            return r
                        e = CLASSES[o]("scripted %s for thread %d" % (o, t))
                        outs.setdefault(("raised", t), []).append(e)
                        raise e
                rc = retrying.RetryingClient(PerThreadInner(), attempts=attempts, retry_delay=0.25)
                saved = retrying.sleep
                retrying.sleep = lambda d: events[sch.me()].append("sleep")

                def prog(t):
                    def run():
                        try:
                            outs[("out", t)] = ("ret", rc.get("key-%d" % t))
                        except S.SchedAbort:
                            raise
                        except BaseException as e:
                            outs[("out", t)] = ("exc", e)
                    return run
                try:
                    ok = sch.run([prog(0), prog(1)])
                finally:
                    retrying.sleep = saved
                executed += 1
                res.count("two_thread_schedules")
                res.count("inner_invocations", events[0].count("call") + events[1].count("call"))
                res.count("sleeps_observed", events[0].count("sleep") + events[1].count("sleep"))
                case = ("two-threads", attempts, sa, sb, sorted(forced.items(), key=repr))
                sig = tuple((i, a, b) for i, a, b, pre in sch.switches)
                res.case(("two-threads", attempts, sa, sb, sig) if sch.switches else None)
                bad = None
                if not ok or sch.deadlock or sch.errors:
                    bad = ("two-threads:did-not-complete", "deadlock %r errors %r" % (sch.deadlock, sch.errors))
                else:
                    for t, script in ((0, sa), (1, sb)):
                        ncalls, kind = predict(attempts, script + ("ok",) * attempts, (), ())
                        want = ["call"] + ["sleep", "call"] * (ncalls - 1)
                        out = outs.get(("out", t))
                        if events[t] != want:
                            bad = ("two-threads:wrong-events", "thread %d: events %r, expected %r" % (t, events[t], want))
                        elif kind == "ok" and not (out[0] == "ret" and out[1] is outs[("returned", t)][-1]):
                            bad = ("two-threads:wrong-result", "thread %d got %r" % (t, out))
                        elif kind == "raise" and not (out[0] == "exc" and out[1] is outs[("raised", t)][-1]):
                            bad = ("two-threads:wrong-exception", "thread %d got %r; its own last attempt raised %r (scripts %r / %r)"
                                   % (t, out, outs[("raised", t)][-1:], sa, sb))
                if bad:
                    res.violation(bad[0], bad[1] + " ; schedule %r" % (sorted(forced.items(), key=repr),), case)
                    break
                last = max([k for k in forced if isinstance(k, int)], default=-1)
                for (i, me, run, kind) in sch.trace:
                    if i == "start":
                        if not forced:
                            for t in run[1:]:
                                push({"start": t}, used)
                        continue
                    if i <= last:
                        continue
                    if kind in ("block", "finish"):
                        for t in run[1:]:
                            f = dict(forced)
                            f[i] = t
                            push(f, used)
                    elif used < P:
                        for t in run:
                            if t != me:
                                f = dict(forced)
                                f[i] = t
                                push(f, used + 1)


def invalid_configs(res, retrying):
    inner = Inner([], [])
    bad = [
        ("attempts=0", dict(attempts=0)), ("attempts=-1", dict(attempts=-1)),
        ("retry_for=[int]", dict(retry_for=[int])), ("retry_for=(BaseException,)", dict(retry_for=(BaseException,))),
        ("do_not_retry_for={KeyboardInterrupt}", dict(do_not_retry_for={KeyboardInterrupt})),
        ("retry_for=Base (bare class)", dict(retry_for=Base)),
        ("do_not_retry_for=Base (bare class)", dict(do_not_retry_for=Base)),
        ("retry_for='Base'", dict(retry_for="Base")),
        ("retry_for=(Base, object)", dict(retry_for=(Base, object))),
    ]
    for rf in itertools.chain.from_iterable(itertools.combinations(NAMES, r) for r in range(1, 5)):
        for dn in itertools.chain.from_iterable(itertools.combinations(NAMES, r) for r in range(1, 5)):
            if set(rf) & set(dn):
                for how in ("tuple", "list", "set"):
                    bad.append(("overlap %r/%r as %s" % (rf, dn, how),
                                dict(retry_for=spell(rf, how), do_not_retry_for=spell(dn, how))))
    for label, kw in bad:
        try:
            retrying.RetryingClient(inner, **kw)
        except (ValueError, TypeError):
            res.count("invalid_configs_rejected")
        except Exception as e:
            res.violation("invalid-config-wrong-exception", "%s raised %r" % (label, e), ("invalid", label))
        else:
            res.violation("invalid-config-accepted", "%s was accepted" % label, ("invalid", label))
        res.case(("invalid", label))
    # valid edge configurations must be accepted
    for label, kw in [("attempts=1", dict(attempts=1)), ("empty tuple", dict(retry_for=())),
                      ("subclass in other list", dict(retry_for=(Base,), do_not_retry_for=[Sub1])),
                      ("retry_delay float", dict(retry_delay=0.5))]:
        try:
            retrying.RetryingClient(inner, **kw)
        except Exception as e:
            res.violation("valid-config-rejected", "%s raised %r" % (label, e), ("valid", label))
        res.case(("valid", label))


def shard(tier, seed, idx, n):
    res = common.Result()
    from pymemcache.client import retrying
    maxa = 4 if tier == "quick" else 5
    subsets = list(itertools.chain.from_iterable(itertools.combinations(NAMES, r) for r in range(0, 5)))
    pairs = [(rf, dn) for rf in subsets for dn in subsets if not set(rf) & set(dn)]
    work = 0
    hows = ("tuple", "list", "set", "none")
    methods = ("get", "get_many", "__setitem__", "__delitem__", "__getitem__") + OTHER_METHODS
    for attempts in range(1, maxa + 1):
        for seq in itertools.product(OUTCOMES, repeat=attempts):
            for pi, (rf, dn) in enumerate(pairs):
                work += 1
                if work % n != idx:
                    continue
                how = hows[(work // n) % 4]
                if how == "none" and (rf and dn):
                    how = "tuple"
                delay = (0, 0.25)[(work // n // 4) % 2]
                method = methods[(work // n // 8) % len(methods)] if (work // n) % 3 == 0 else "get"
                Inner.chain = (None, "cause", "context", None)[(work // n // 2) % 4]
                try:
                    run_case(res, retrying, attempts, seq, rf, dn, how, delay, method)
                finally:
                    Inner.chain = None
                nt = (attempts, seq, rf, dn) if any(o != "ok" for o in seq) else None
                res.case(nt, {"attempts": attempts, "outcomes": seq, "retry_for": rf, "do_not_retry_for": dn, "spelling": how,
                              "retry_delay": delay, "method": method} if res.evaluations % 7919 == 0 else None)
    # sessions: one wrapper, 2-4 calls in a row (state kept on the wrapper between calls would show here)
    import random
    rng = random.Random(seed * 131 + 17)
    outs = OUTCOMES + ["SysExit", "Interrupt"]
    for attempts in range(1, maxa + 1):
        for pi, (rf, dn) in enumerate(pairs):
            for si in range(12 if tier == "quick" else 60):
                work += 1
                seqs = tuple(tuple(rng.choice(outs) if rng.random() < 0.7 else "ok" for _ in range(attempts))
                             for _ in range(rng.randrange(2, 5)))
                how = hows[si % 4]
                if how == "none" and (rf and dn):
                    how = "list"
                if work % n != idx:
                    continue
                run_session(res, retrying, attempts, seqs, rf, dn, how, (0, 0.25)[si % 2])
                res.case(("session", attempts, seqs, rf, dn))
    if idx == 1 % n:
        two_threads(res, retrying, tier)
    if idx == 0:
        invalid_configs(res, retrying)
    else:
        res.count("invalid_configs_rejected", 0)
    res.count("exceptions_raised_chained_to_another_class", Inner.chained)
    res.extra["exhaustive"] = True
    res.extra["exhaustive_part"] = "attempts 1..%d x all outcome sequences x all 81 disjoint subset pairs; all 175 overlapping pairs x 3 spellings rejected" % maxa
    return res


def replay(case):
    res = common.Result()
    from pymemcache.client import retrying
    if case[0] in ("invalid", "valid"):
        invalid_configs(res, retrying)
    elif case[0] == "two-threads":
        two_threads(res, retrying, "quick")
    elif case[0] == "session":
        run_session(res, retrying, *[tuple(map(tuple, x)) if i == 1 else (tuple(x) if isinstance(x, list) else x)
                                     for i, x in enumerate(case[1:])])
    else:
        for ch in (None, "cause", "context"):
            Inner.chain = ch
            try:
                run_case(res, retrying, *case)
            finally:
                Inner.chain = None
    res.case(case)
    for c in REQUIRED_COUNTERS:
        res.count(c)
    return res
