"""C15 - serializers round-trip every value with its exact type.

Monitors: icontract postconditions on the real PickleSerde.serialize / CompressedSerde.serialize
(shape of the serialized form and flags) and on the deserialize methods, with evaluation
counters; a round-trip oracle with recursive exact-type comparison; a recomputation oracle
for the compression algebra (flag <=> stored form == compress(inner form); never larger;
threshold respected)."""
import bz2
import lzma
import random
import zlib

from vk import common, valuegen

PROPERTY = "C15"
LEVEL = "exploration"
RULE = ("values from a recursive seeded generator (bytes/str incl. non-BMP, ints of any sign up to 4000 digits, bool, None, float "
        "incl. inf/-0.0/nan, containers nested to depth 4, subclasses of int/str/bytes/list/dict, dataclass and __slots__ "
        "objects, sizes straddling each threshold, incompressible and highly compressible data) x pickle protocols 0..5 x "
        "min_compress_len {0,1,10,400} x codecs {zlib, bz2, lzma, identity} + LegacyWrappingSerde; + one serde object shared by two "
        "serializations in progress at once (re-entrant, and two threads with a forced interleaving). Non-trivial = value is not a "
        "short ASCII bytes/str; distinct by (type shape, size class, serde configuration).")
ASSUMPTIONS = [
    "a str serialized form is transmitted by the client as str(form).encode('ascii') (what _store_cmd does with the default encoding)",
    "ints beyond the interpreter's 4300-digit str conversion limit, lone surrogates, NaN identity and __slots__ classes without __getstate__ under protocol 0 are outside the statement",
]
MIN_NONTRIVIAL = {"quick": 1500, "thorough": 8000}
REQUIRED_COUNTERS = ["serialize_contract_evaluations", "deserialize_contract_evaluations", "round_trips",
                     "compressed_items", "uncompressed_items_above_threshold_or_below"]
SHARDS = {"quick": 16, "thorough": 16}
TIMEOUT = {"quick": 600, "thorough": 3600}


class Broken(Exception):
    pass


CODECS = {
    "zlib": (zlib.compress, zlib.decompress),
    "bz2": (bz2.compress, bz2.decompress),
    "lzma": (lzma.compress, lzma.decompress),
    "identity": (lambda b: b, lambda b: b),
    # the library's own defaults (nothing passed for compress / decompress): documented as zlib
    "default": (zlib.compress, zlib.decompress),
}


def install(res):
    import icontract
    from pymemcache import serde
    st = {"last": None}

    def form_is_transmittable_and_flags_16bit(result):
        res.count("serialize_contract_evaluations")
        form, flags = result
        if not (isinstance(flags, int) and not isinstance(flags, bool) and 0 <= flags <= 0xFFFF):
            st["last"] = "flags %r outside 0..65535" % (flags,)
            return False
        if isinstance(form, bytes):
            return True
        if isinstance(form, str):
            try:
                form.encode("ascii")
                return True
            except UnicodeEncodeError:
                st["last"] = "serialized form is non-ASCII text"
                return False
        st["last"] = "serialized form is %s, neither bytes nor ASCII text" % type(form).__name__
        return False

    def deserialize_saw_bytes(value):
        res.count("deserialize_contract_evaluations")
        return isinstance(value, bytes)

    for cls in (serde.PickleSerde, serde.CompressedSerde):
        if not getattr(cls.serialize, "_verif", False):
            w = icontract.ensure(form_is_transmittable_and_flags_16bit, error=Broken)(cls.serialize)
            w._verif = True
            cls.serialize = w
            d = icontract.require(deserialize_saw_bytes, error=Broken)(cls.deserialize)
            d._verif = True
            cls.deserialize = d
    return st


def wire(form):
    return form if isinstance(form, bytes) else str(form).encode("ascii")


def round_trip(res, st, label, sd, v, cfgkey, case):
    """generic round trip; returns (form, flags) or None"""
    try:
        form, flags = sd.serialize("key", v)
    except Broken:
        res.violation("untransmittable-form:%s" % label, "%s: %s for value of type %s" % (label, st["last"], type(v).__name__), case)
        return None
    except Exception as e:
        res.violation("serialize-raises:%s:%s:%s" % (label, type(v).__name__, type(e).__name__),
                      "%s.serialize(%s) raised %r" % (label, _sh(v), e), case)
        return None
    try:
        back = sd.deserialize("key", wire(form), flags)
    except Exception as e:
        res.violation("deserialize-raises:%s:%s:%s" % (label, type(v).__name__, type(e).__name__),
                      "%s.deserialize raised %r for %s (flags %d)" % (label, e, _sh(v), flags), case)
        return None
    res.count("round_trips")
    if not valuegen.same(v, back):
        kind = "type-changed" if type(v) is not type(back) else "value-changed"
        res.violation("%s:%s:%s" % (kind, label, type(v).__name__),
                      "%s round trip: %s (%s) came back as %s (%s)" % (label, _sh(v), type(v).__name__, _sh(back), type(back).__name__), case)
    return form, flags


_SERDES = {}


def shared(kind, proto, mcl=None, codec=None):
    """serde objects live as long as the client that owns them: one object per configuration serves every value of the run
    (anything a serde keeps between two calls shows up as a dependence on the previous value)"""
    from pymemcache import serde
    k = (kind, proto, mcl, codec)
    if k not in _SERDES:
        if kind == "pickle":
            _SERDES[k] = serde.PickleSerde(pickle_version=proto)
        else:
            comp, decomp = CODECS[codec]
            kw = {} if codec == "default" else {"compress": comp, "decompress": decomp}
            _SERDES[k] = serde.CompressedSerde(serde=shared("pickle", proto), min_compress_len=mcl, **kw)
    return _SERDES[k]


def check_compressed(res, st, v, proto, mcl, codec, case, fresh=False):
    from pymemcache import serde
    comp, decomp = CODECS[codec]
    if fresh:
        inner = serde.PickleSerde(pickle_version=proto)
        kw = {} if codec == "default" else {"compress": comp, "decompress": decomp}
        sd = serde.CompressedSerde(serde=inner, min_compress_len=mcl, **kw)
    else:
        inner = shared("pickle", proto)
        sd = shared("compressed", proto, mcl, codec)
    label = "CompressedSerde"
    r = round_trip(res, st, label, sd, v, None, case)
    if r is None:
        return
    form, flags = r
    try:
        iform, iflags = inner.serialize("key", v)
    except Exception:
        return
    ib = wire(iform)
    stored = wire(form)
    compressed_flag = bool(flags & serde.FLAG_COMPRESSED)
    if (flags & ~serde.FLAG_COMPRESSED) != iflags:
        res.violation("flags-altered-by-compression", "inner flags %d, outer flags %d" % (iflags, flags), case)
    if compressed_flag:
        res.count("compressed_items")
        if stored != comp(ib):
            res.violation("flag-set-but-not-compressed-form", "COMPRESSED set but stored form is not compress(inner) (%s, mcl %d)" % (codec, mcl), case)
        if len(stored) > len(ib):
            res.violation("stored-larger-than-uncompressed", "stored %d bytes > inner %d bytes" % (len(stored), len(ib)), case)
        if mcl == 0 or len(ib) <= mcl:
            res.violation("compressed-below-threshold", "inner %d bytes, min_compress_len %d, yet compressed" % (len(ib), mcl), case)
    else:
        res.count("uncompressed_items_above_threshold_or_below")
        if stored != ib:
            res.violation("flag-clear-but-form-differs", "COMPRESSED clear but stored form != inner form", case)
        if mcl > 0 and len(ib) > mcl and len(comp(ib)) <= len(ib) and codec != "identity":
            # the statement does not oblige compression; only record how often it was skipped although it would help
            res.count("compression_skipped_although_smaller")


def straddle_values(rng, mcl):
    """sizes len-1, len, len+1 around the threshold for bytes / str / int / pickled forms"""
    out = []
    for d in (-1, 0, 1, 2):
        n = max(0, mcl + d)
        out.append(b"a" * n)
        out.append(bytes(rng.randrange(256) for _ in range(n)))      # incompressible
        out.append("z" * n)
        out.append("é" * (n // 2))
        if n >= 1:
            out.append(int("9" * n))
            out.append(-int("1" + "0" * max(0, n - 2)) if n >= 2 else -1)
    out.append(b"abc" * 2000)
    out.append(b"\x00" * ((3 << 20) + 7))            # compresses to a few KiB: the stored form fits any item limit
    out.append("z" * ((1 << 20) + 5))
    out.append(bytes(rng.randrange(256) for _ in range(3000)))
    out.append(int("7" * 4000))
    out.append(-int("3" * 1234))
    # values that are themselves valid compressed streams (a cached HTTP body, a nested cache layer): level-0 zlib streams
    # are still compressible, so every codec flags them; ordinary streams are flagged by the identity codec
    import bz2, gzip, lzma, zlib
    payload = b"inner payload %d " % mcl * 40
    out.append(zlib.compress(payload, 0))
    out.append(zlib.compress(payload))
    out.append(zlib.compress(zlib.compress(payload, 0), 0))
    out.append(bz2.compress(payload))
    out.append(lzma.compress(payload))
    out.append(gzip.compress(payload, mtime=0))
    out.append(zlib.compress(payload, 0).decode("latin-1"))         # the same bytes as text
    return out


def _sh(v):
    r = repr(v)
    return r if len(r) < 100 else r[:90] + "...(%d chars)" % len(r)


def run_value(res, st, v, rng, tier, full=False):
    from pymemcache import serde
    protos = range(0, 6) if full else [rng.randrange(0, 6), 5]
    for proto in protos:
        case = ("pickle", proto, None, None, repr(v)[:300])
        sd = shared("pickle", proto) if res.evaluations % 3 else serde.PickleSerde(pickle_version=proto)
        round_trip(res, st, "PickleSerde", sd, v, None, ("pickle", proto, v) if _literal(v) else case)
        res.case(("pickle", proto, valuegen.shape(v)) if nontrivial(v) else None,
                 {"serde": "PickleSerde(protocol=%d)" % proto, "value": _sh(v)} if res.evaluations % 1777 == 0 else None)
    combos = [(m, c) for m in (0, 1, 10, 400) for c in CODECS] if full else [
        (rng.choice((0, 1, 10, 400)), rng.choice(list(CODECS))), (10, "zlib")]
    for mcl, codec in combos:
        proto = rng.randrange(0, 6)
        case = ("compressed", proto, mcl, codec, v) if _literal(v) else ("compressed", proto, mcl, codec, repr(v)[:300])
        check_compressed(res, st, v, proto, mcl, codec, case, fresh=(res.evaluations % 3 == 0))
        res.case(("compressed", mcl, codec, valuegen.shape(v)) if nontrivial(v) else None,
                 {"serde": "CompressedSerde(%s, min_compress_len=%d, pickle %d)" % (codec, mcl, proto), "value": _sh(v)}
                 if res.evaluations % 1777 == 0 else None)


def _literal(v):
    return type(v) in (bytes, str, int, bool, float, type(None)) and len(repr(v)) < 9000 and v == v


def nontrivial(v):
    if type(v) in (bytes, str):
        try:
            s = v.decode("ascii") if isinstance(v, bytes) else v
            return not (s.isascii() and len(s) <= 10 and s.isalnum())
        except UnicodeDecodeError:
            return True
    return True


def legacy(res, st, rng):
    from pymemcache import serde
    lw = serde.LegacyWrappingSerde(None, None)
    for v in (b"", b"bytes", b"\r\n\x00", bytes(range(256))):
        form, flags = lw.serialize("k", v)
        res.count("round_trips")
        if form is not v or flags != 0 or lw.deserialize("k", form, flags) != v:
            res.violation("legacy-passthrough-changed", "LegacyWrappingSerde(None, None) changed %r" % (v,), ("legacy", v))
        res.case(("legacy-none", v))
    lw2 = serde.LegacyWrappingSerde(serde.python_memcache_serializer, serde.python_memcache_deserializer)
    for _ in range(200):
        v = valuegen.value(rng)
        round_trip(res, st, "LegacyWrappingSerde(python_memcache_*)", lw2, v, None, ("legacy2", repr(v)[:200]))
        res.case(("legacy2", valuegen.shape(v)))


def shared_serde(res, st, rng, tier):
    """One serde object is shared by everything that uses a client (and by every thread of a PooledClient): a serialize
    that starts while another one on the same object is in the middle of its dump must not disturb it.  Interleavings
    are forced, not hoped for: the outer value's __reduce__ runs the inner serialize (same thread), or releases a
    second thread and waits until that thread's whole serialize+deserialize is done."""
    import threading
    from pymemcache import serde
    mk = {
        "PickleSerde": lambda proto: serde.PickleSerde(pickle_version=proto),
        "CompressedSerde": lambda proto: serde.CompressedSerde(serde=serde.PickleSerde(pickle_version=proto), min_compress_len=10),
        "pickle_serde": lambda proto: serde.pickle_serde,
        "LegacyWrappingSerde": lambda proto: serde.LegacyWrappingSerde(serde.python_memcache_serializer, serde.python_memcache_deserializer),
    }
    for label, make in mk.items():
        for proto in range(0, 6):
            for mode in ("reentrant", "two-threads"):
                sd = make(proto)
                inner_v = {"inner": [rng.randrange(1000), "x" * rng.randrange(0, 50)], "t": (1, 2.5, None)}
                outer_v = ["before", valuegen.Hooked("h", rng.randrange(1000)), "after" * rng.randrange(1, 30), {"k": b"v"}]
                seen = {}

                def other(sd=sd, inner_v=inner_v, seen=seen):
                    try:
                        f, fl = sd.serialize("other", inner_v)
                        seen["inner_back"] = sd.deserialize("other", wire(f), fl)
                    except Exception as e:
                        seen["inner_exc"] = e
                if mode == "reentrant":
                    valuegen.Hooked.hooks = {"h": other}
                else:
                    inside, done = threading.Event(), threading.Event()

                    def hook():
                        inside.set()
                        seen["other_finished_in_time"] = done.wait(5)

                    def thread_body():
                        if inside.wait(5):
                            other()
                        done.set()
                    valuegen.Hooked.hooks = {"h": hook}
                    th = threading.Thread(target=thread_body, daemon=True)
                    th.start()
                case = ("shared", label, proto, mode)
                try:
                    form, flags = sd.serialize("outer", outer_v)
                    valuegen.Hooked.hooks = {}
                    back = sd.deserialize("outer", wire(form), flags)
                except Exception as e:
                    valuegen.Hooked.hooks = {}
                    res.violation("shared-serde-raises:%s:%s" % (label, mode), "%s (protocol %d), %s: %r" % (label, proto, mode, e), case)
                    back = outer_v
                if mode == "two-threads":
                    th.join(10)
                    if not seen.get("other_finished_in_time"):
                        res.count("shared_serde_interleavings_not_obtained")     # e.g. serialize is guarded by a lock
                        continue
                res.count("shared_serde_interleavings")
                res.count("round_trips", 2)
                if "inner_exc" in seen:
                    res.violation("shared-serde-raises:%s:%s" % (label, mode), "inner serialize raised %r" % (seen["inner_exc"],), case)
                elif not valuegen.same(seen.get("inner_back"), inner_v):
                    res.violation("shared-serde-mixes-values:%s:%s" % (label, mode),
                                  "%s: the value serialised in the middle of another dump came back as %s" % (label, _sh(seen.get("inner_back"))), case)
                if not valuegen.same(back, outer_v):
                    res.violation("shared-serde-mixes-values:%s:%s" % (label, mode),
                                  "%s (protocol %d): a serialize interrupted (%s) by another serialize on the same serde object came "
                                  "back as %s instead of %s" % (label, proto, mode, _sh(back), _sh(outer_v)), case)
                res.case(case)


FAILED = object()      # rt() below: the round trip itself failed (and was reported)


def graphs_and_histories(res, st, rng, tier):
    """values the generic comparison cannot walk (reference cycles), pickles far above any internal buffer size, and a class
    whose module-level name is re-bound between two round trips"""
    from pymemcache import serde
    serdes = []
    for proto in range(0, 6):
        serdes.append(("PickleSerde(%d)" % proto, shared("pickle", proto)))
        serdes.append(("CompressedSerde(zlib,10,pickle %d)" % proto, shared("compressed", proto, 10, "zlib")))
        serdes.append(("CompressedSerde(identity,0,pickle %d)" % proto, shared("compressed", proto, 0, "identity")))
    serdes.append(("pickle_serde", serde.pickle_serde))
    serdes.append(("compressed_serde", serde.compressed_serde))
    serdes.append(("LegacyWrappingSerde(python_memcache_*)",
                   serde.LegacyWrappingSerde(serde.python_memcache_serializer, serde.python_memcache_deserializer)))

    def rt(label, sd, v, case):
        try:
            form, flags = sd.serialize("key", v)
        except Broken:
            res.violation("untransmittable-form:%s" % label.split("(")[0], "%s: %s for a %s" % (label, st["last"], case[1]), case)
            return FAILED
        except Exception as e:
            res.violation("serialize-raises:%s:%s:%s" % (label.split("(")[0], case[1], type(e).__name__),
                          "%s.serialize(<%s>) raised %r" % (label, case[1], e), case)
            return FAILED
        if not isinstance(form, (bytes, str)):
            res.violation("untransmittable-form:%s" % label.split("(")[0], "%s: serialized form of a %s is %s" % (label, case[1], type(form).__name__), case)
            return FAILED
        try:
            back = sd.deserialize("key", wire(form), flags)
        except Exception as e:
            res.violation("deserialize-raises:%s:%s:%s" % (label.split("(")[0], case[1], type(e).__name__),
                          "%s.deserialize raised %r for a %s" % (label, e, case[1]), case)
            return FAILED
        res.count("round_trips")
        return back

    for label, sd in serdes:
        # 1. reference cycles
        lst = [1, "two"]
        lst.append(lst)
        back = rt(label, sd, lst, ("graph", "list-containing-itself", label))
        if back is not FAILED and not (type(back) is list and len(back) == 3 and back[:2] == [1, "two"] and back[2] is back):
            res.violation("value-changed:%s:cyclic-list" % label.split("(")[0], "%s: a list containing itself came back as %r" % (label, type(back)), ("graph", "list", label))
        dct = {"name": "d"}
        dct["self"] = dct
        back = rt(label, sd, dct, ("graph", "dict-containing-itself", label))
        if back is not FAILED and not (type(back) is dict and set(back) == {"name", "self"} and back["self"] is back):
            res.violation("value-changed:%s:cyclic-dict" % label.split("(")[0], "%s: a dict containing itself came back wrong" % label, ("graph", "dict", label))
        root = valuegen.TreeNode("root")
        kids = [valuegen.TreeNode("kid%d" % i, root) for i in range(3)]
        valuegen.TreeNode("grandchild", kids[1])
        back = rt(label, sd, root, ("graph", "parent-linked-tree", label))
        if back is not FAILED and not (type(back) is valuegen.TreeNode and [c.name for c in back.children] == ["kid0", "kid1", "kid2"]
                                     and all(c.parent is back for c in back.children)
                                     and back.children[1].children[0].parent is back.children[1]):
            res.violation("value-changed:%s:parent-linked-tree" % label.split("(")[0], "%s: tree came back with broken links" % label, ("graph", "tree", label))
        shared_leaf = ["leaf"]
        both = [shared_leaf, shared_leaf]
        back = rt(label, sd, both, ("graph", "shared-substructure", label))
        if back is not FAILED and not (back == both and back[0] is back[1]):
            res.violation("value-changed:%s:shared-substructure" % label.split("(")[0], "%s: two references to one list came back as %r" % (label, back), ("graph", "shared", label))
        res.count("object_graphs_with_cycles", 4)
        res.case(("graph", label))
    # 1b. values whose pickles name classes of the standard library (what os / socket / datetime / decimal ... hand out)
    import collections, datetime, decimal, enum, fractions, os, pathlib, socket, uuid
    Pt = collections.namedtuple("Pt", "x y")
    Pt.__module__ = valuegen.__name__
    Pt.__qualname__ = "Pt"
    setattr(valuegen, "Pt", Pt)
    std_values = [("os.stat_result", os.stat(".")), ("os.terminal_size", os.terminal_size((80, 24))), ("socket.AddressFamily", socket.AF_INET),
                  ("getaddrinfo-style tuple", [(socket.AF_INET, socket.SOCK_STREAM, 6, "", ("10.0.0.1", 11211))]),
                  ("datetime", datetime.datetime(2024, 2, 29, 12, 30, tzinfo=datetime.timezone.utc)), ("timedelta", datetime.timedelta(days=-1, seconds=5)),
                  ("Decimal", decimal.Decimal("-1.50")), ("Fraction", fractions.Fraction(-3, 7)), ("UUID", uuid.UUID(int=0x1234)),
                  ("PurePosixPath", pathlib.PurePosixPath("/var/cache/x")), ("OrderedDict", collections.OrderedDict(b=1, a=2)),
                  ("deque", collections.deque([1, 2], maxlen=5)), ("Counter", collections.Counter("abca")), ("namedtuple", Pt(1, -2)),
                  ("range", range(3, 30, 4)), ("complex", complex(-0.0, 2.5)), ("bytearray", bytearray(b"\x00ab")), ("slice", slice(1, None, 2)),
                  ("builtin function", len), ("bound method of a str", "abc".upper), ("type object", OSError), ("sys.flags-like struct", os.times())]
    for label, sd in serdes[::2] + serdes[-3:] if tier == "quick" else serdes:
        for name, v in std_values:
            back = rt(label, sd, v, ("stdlib", name, label))
            if back is FAILED:
                continue
            same_ = (back == v) if name not in ("bound method of a str",) else (back() == v())
            if not (same_ and type(back) is type(v)):
                res.violation("value-changed:%s:stdlib-value" % label.split("(")[0], "%s: %s %r came back as %r (%s)" % (label, name, v, back, type(back).__name__),
                              ("stdlib", name, label))
            res.count("standard_library_values")
        res.case(("stdlib", label))
    # 2. pickles far above any internal buffer size (128 KiB, 1 MiB), incompressible and compressible
    bigs = [("list-with-150000-random-bytes", [rng.randbytes(150000), 7]), ("dict-of-3000-random-strings", {i: rng.randbytes(48).hex() for i in range(3000)}),
            ("tuple-with-1.5MiB-random-bytes", (rng.randbytes(1500000),)), ("list-of-40000-ints", list(range(40000)))]
    for label, sd in serdes[::3] + serdes[-3:] if tier == "quick" else serdes:
        for name, v in bigs:
            back = rt(label, sd, v, ("big", name, label))
            if back is not FAILED and not (back == v and type(back) is type(v)):
                res.violation("value-changed:%s:big-pickle" % label.split("(")[0], "%s: %s came back changed" % (label, name), ("big", name, label))
            res.count("big_pickles")
        res.case(("big", label))
    # 3. the name of a class is bound to a new class object between two round trips
    for label, sd in serdes:
        cls1 = valuegen.Rebindable
        b1 = rt(label, sd, cls1(1), ("rebind", "instance-before-rebinding", label))
        if b1 is not FAILED and type(b1) is not cls1:
            res.violation("type-changed:%s:Rebindable" % label.split("(")[0], "%s: instance came back as %r" % (label, type(b1)), ("rebind", 1, label))
        cls2 = valuegen.rebind_rebindable()
        b2 = rt(label, sd, cls2(2), ("rebind", "instance-of-the-newly-bound-class", label))
        if b2 is not FAILED and (type(b2) is not cls2 or b2 != cls2(2)):
            res.violation("type-changed:%s:class-rebound-between-round-trips" % label.split("(")[0],
                          "%s: after %s.Rebindable was bound to a new class object (generation %d), an instance of it came back as "
                          "an instance of generation %r" % (label, valuegen.__name__, cls2.generation, getattr(type(b2), "generation", "?")),
                          ("rebind", 2, label))
        res.count("class_rebindings")
        res.case(("rebind", label))


def shard(tier, seed, idx, n):
    res = common.Result()
    st = install(res)
    rng = random.Random(seed * 911 + idx)
    # deterministic part: straddle values x full grid (sharded)
    work = 0
    for mcl in (1, 10, 400):
        for v in straddle_values(random.Random(seed + mcl), mcl):
            work += 1
            if work % n != idx:
                continue
            run_value(res, st, v, rng, tier, full=True)
    for v in ["\ufeff", "\ufeffhello", "hello\ufeff", "\ufffe", "\ufeff" * 3, "\x00\ufeff", "\ud7ff\ue000", "\U0010ffff", b"\xef\xbb\xbfbom-bytes",
              "\x85\u2028\u2029", "\x1a", "\r", "\n", " lead", "trail ", "\t"]:
        work += 1
        if work % n != idx:
            continue
        run_value(res, st, v, rng, tier, full=True)
    for v in [True, False, None, 0, -1, 1 << 64, 0.0, -0.0, float("inf"), b"", "", valuegen.MyInt(5), valuegen.MyStr("s"),
              valuegen.MyBytes(b"b"), valuegen.MyList([1]), valuegen.MyDict(a=1), valuegen.Point(1, [2]), valuegen.Slotted(1, "x"),
              (1, "a", b"b", None), {"k": [1, 2.5, {"n": None}]}, frozenset([1, 2]), {1, "a"}, float("nan"), [float("nan")]]:
        work += 1
        if work % n != idx:
            continue
        run_value(res, st, v, rng, tier, full=True)
    count = (250 if tier == "quick" else 4000)
    for i in range(count):
        v = valuegen.value(rng)
        run_value(res, st, v, rng, tier, full=(i % 10 == 0))
    if idx == 0:
        legacy(res, st, rng)
    if idx == 1 % n:
        shared_serde(res, st, rng, tier)
    if idx == 2 % n:
        graphs_and_histories(res, st, rng, tier)
    return res


def replay(case):
    res = common.Result()
    st = install(res)
    from pymemcache import serde
    kind = case[0]
    v = case[-1] if kind in ("compressed",) else case[2] if kind == "pickle" else None
    print("replay", case[:4])
    if kind == "pickle" and not isinstance(case[2], type(None)) or (kind == "pickle" and len(case) == 3):
        round_trip(res, st, "PickleSerde", serde.PickleSerde(pickle_version=case[1]), case[2], None, case)
    elif kind == "compressed":
        check_compressed(res, st, case[4], case[1], case[2], case[3], case)
    elif kind == "shared":
        shared_serde(res, st, random.Random(0), "quick")
    elif kind in ("graph", "big", "rebind", "stdlib"):
        graphs_and_histories(res, st, random.Random(0), "quick")
    res.case(case)
    for c in REQUIRED_COUNTERS:
        res.count(c)
    return res
