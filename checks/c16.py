"""C16 - PooledClient, single-server HashClient and RetryingClient behave like Client.

Monitor: differential.  Five identical reference servers in identical states sit behind five
stacks (Client; PooledClient; HashClient([s]); HashClient([s], use_pooling=True);
RetryingClient(Client, attempts=1)) built from the same configuration; for the same call the
parsed command stream received by each server (verb, wire key, flags, exptime, data, cas,
noreply; order), the socket options/timeouts observed on its connections, and the outcome
(return value or exception class) must equal plain Client's."""
import itertools
import random

from vk import common
from vk.fakenet import FakeNet
from vk.refserver import Item, RefServer

PROPERTY = "C16"
LEVEL = "exploration"
RULE = ("every key-addressed operation x argument grid (noreply None/True/False, expire 0/5, flags None/7, defaults and "
        "cas_defaults as sentinels, key collections) x configuration grid (key_prefix, default_noreply, encoding ascii/utf8 with "
        "non-ASCII str values, allow_unicode_keys with non-ASCII keys, serde none/pickle/custom, legacy serializer/deserializer "
        "functions, connect_timeout/timeout, no_delay; thorough: pairs of options) x server states (hit, miss, cas match/mismatch, "
        "numeric/non-numeric counter, illegal key); arguments by keyword except where all signatures agree positionally. "
        "Plus sessions of 3-6 random grid calls in a row on one object per stack, compared step by step. "
        "Non-trivial = >=1 non-default option or argument; distinct by (op, args, config, state).")
ASSUMPTIONS = [
    "RetryingClient is compared with attempts=1 (forwarding, not retry duplication, which is C17's subject)",
    "parameters whose position differs between classes are passed by keyword; multi-key calls containing an illegal key are not compared on HashClient",
    "command streams are compared after parsing, so N single-key packets vs one batch of the same commands is not a difference",
]
MIN_NONTRIVIAL = {"quick": 3000, "thorough": 12000}
REQUIRED_COUNTERS = ["five_way_comparisons", "commands_compared", "connections_compared"]
SHARDS = {"quick": 16, "thorough": 16}
TIMEOUT = {"quick": 900, "thorough": 7200}

STACKS = ["client", "pooled", "hash", "hashpooled", "retrying"]
D, CD = "<d>", "<cd>"


class FalsySerde(dict):
    """a codec registry that happens to be empty: a perfectly good serde object, but falsy"""

    def serialize(self, key, value):
        if isinstance(value, bytes):
            return b"F:" + value, 31
        return ("F:%s" % (value,)), 32

    def deserialize(self, key, value, flags):
        return value[2:] if flags in (31, 32) else value


class UpperSerde:
    def serialize(self, key, value):
        if isinstance(value, bytes):
            return b"U:" + value, 21
        return ("S:%s" % (value,)), 22

    def deserialize(self, key, value, flags):
        if flags == 21:
            return value[2:]
        if flags == 22:
            return value.decode("utf8")[2:]
        return ("foreign", value, flags)


def legacy_ser(key, value):
    if isinstance(value, bytes):
        return value, 0
    return repr(value).encode("utf8"), 9


def legacy_deser(key, value, flags):
    return (value, flags) if flags == 9 else value


def base_configs():
    from pymemcache import serde
    return [
        ("default", {}),
        ("prefix", {"key_prefix": b"p:"}),
        ("noreply-off", {"default_noreply": False}),
        ("utf8", {"encoding": "utf8"}),
        ("unicode-keys", {"allow_unicode_keys": True}),
        ("pickle", {"serde": serde.PickleSerde()}),
        ("pickle0", {"serde": serde.PickleSerde(pickle_version=0)}),
        ("compressed", {"serde": serde.CompressedSerde(min_compress_len=5)}),
        ("custom-serde", {"serde": UpperSerde()}),
        ("falsy-serde", {"serde": FalsySerde()}),
        ("legacy-funcs", {"serializer": legacy_ser, "deserializer": legacy_deser}),
        ("legacy-serializer-only", {"serializer": legacy_ser}),
        ("legacy-deserializer-only", {"deserializer": legacy_deser}),
        ("timeouts", {"connect_timeout": 1.5, "timeout": 2.5}),
        ("io-timeout-only", {"timeout": 2.5}),
        ("connect-timeout-only", {"connect_timeout": 1.5}),
        ("no_delay", {"no_delay": True}),
        ("unix-server", {"_unix_server": True}),
    ]


def configs(tier):
    base = base_configs()
    out = list(base)
    pairs = list(itertools.combinations(base[1:], 2))
    rng = random.Random(16)
    for (n1, c1), (n2, c2) in pairs:
        if set(c1) & set(c2):
            continue
        if "serde" in (set(c1) | set(c2)) and {"serializer", "deserializer"} & (set(c1) | set(c2)):
            continue
        d = dict(c1)
        d.update(c2)
        out.append((n1 + "+" + n2, d))
    if tier == "thorough":
        triples = list(itertools.combinations(base[1:], 3))
        for t in rng.sample(triples, 80):
            keys = [k for _, c in t for k in c]
            if len(keys) != len(set(keys)) or ("serde" in keys and {"serializer", "deserializer"} & set(keys)):
                continue
            d = {}
            for _, c in t:
                d.update(c)
            out.append(("+".join(nm for nm, _ in t), d))
    return out


def ops_grid(cfgname):
    """-> list of (label, method, args, kwargs)"""
    G = []

    def add(label, m, *a, **k):
        G.append((label, m, a, k))

    uni = "unicode-keys" in cfgname
    keys = {"hit": "h1", "miss": "m1", "num": "num", "txt": "txt", "bytes-key": b"h2", "illegal": "bad key",
            "toolong": "k" * 251,
            # boundary keys: the empty key (legal exactly when a prefix makes the wire key non-empty), exactly at / one
            # below the length limit (a prefix pushes them over), non-ASCII text (legal only with unicode keys)
            "empty-str": "", "empty-bytes": b"", "at-limit": "k" * 250, "below-limit": b"k" * 248, "nonascii": "clé",
            "nonutf8-bytes": b"caf\xe9\xff"}
    if uni:
        keys["unicode"] = "clé-☃"
    vals = [("bytes", b"value"), ("str", "text"), ("int", 42), ("nonascii-str", "naïve-☃"), ("crlf", b"a\r\nb")]
    for kn, key in keys.items():
        add("get-" + kn, "get", key)
        add("get-default-" + kn, "get", key, D)
        add("gets-" + kn, "gets", key)
        add("gets-defaults-" + kn, "gets", key, default=D, cas_default=CD)
        add("gat-" + kn, "gat", key, expire=5, default=D)
        add("gats-" + kn, "gats", key, expire=5, default=D, cas_default=CD)
        add("delete-" + kn, "delete", key)
        add("delete-nr-" + kn, "delete", key, noreply=False)
        add("incr-" + kn, "incr", key, 3)
        add("decr-nr-" + kn, "decr", key, 3, noreply=True)
        add("touch-" + kn, "touch", key, expire=5, noreply=False)
        add("touch-default-" + kn, "touch", key)
        add("cas-mismatch-" + kn, "cas", key, b"c", b"999", noreply=False)
        add("cas-match-" + kn, "cas", key, b"c", b"1", expire=5)
        add("cas-int-" + kn, "cas", key, b"c", 1, flags=7)
    for vn, val in vals:
        for nr in (None, True, False):
            kw = {} if nr is None else {"noreply": nr}
            add("set-%s-%s" % (vn, nr), "set", "k-new", val, **kw)
            add("add-%s-%s" % (vn, nr), "add", "h1", val, **kw)
            add("replace-%s-%s" % (vn, nr), "replace", "h1", val, expire=5, **kw)
        add("append-" + vn, "append", "h1", val, noreply=False)
        add("prepend-flags-" + vn, "prepend", "h1", val, flags=7, noreply=False)
        add("set-flags-exp-" + vn, "set", "k-new", val, expire=5, flags=7)
        add("set_many-" + vn, "set_many", {"a": val, "b": b"other"}, noreply=False)
        add("set_many-exp-" + vn, "set_many", {"a": val}, expire=5, flags=7)
    # positional arguments in the order of Client's signature (how FallbackClient and older callers pass them)
    for m_ in ("set", "add", "replace", "append", "prepend"):
        add(m_ + "-positional", m_, "h1" if m_ != "set" else "k-new", b"pv", 0, False)
        add(m_ + "-positional-exp-nr", m_, "h1" if m_ != "set" else "k-new", b"pv", 5, True)
    add("cas-positional", "cas", "h1", b"c", b"1", 0, False)
    add("cas-positional-mismatch", "cas", "h1", b"c", b"999", 5, False)
    add("gets-positional-defaults", "gets", "m1", D, CD)
    add("delete-positional", "delete", "h1", False)
    add("incr-positional", "incr", "num", 3, False)
    add("decr-positional-nr", "decr", "num", 3, True)
    add("touch-positional", "touch", "h1", 5, False)
    # (gat/gats are not in this list: upstream HashClient.gat(key, default=None, **kw) takes 'default' second where Client
    # takes 'expire' - a signature difference the properties acknowledge (C07: defaults by keyword except for get))
    add("set_many-positional", "set_many", {"a": b"1", "b": b"2"}, 5, False)
    add("delete_many-positional", "delete_many", ["h1", "m1"], False)
    # noreply passed explicitly as None
    add("incr-noreply-none", "incr", "num", 3, noreply=None)
    add("delete-noreply-none", "delete", "h1", noreply=None)
    add("touch-noreply-none", "touch", "h1", 5, noreply=None)
    add("set-noreply-none", "set", "k-new", b"v", noreply=None)
    # the documented aliases are operations too
    add("get_multi", "get_multi", ["h1", "m1", "num"])
    add("set_multi", "set_multi", {"a": b"1", "b": b"2"}, noreply=False)
    add("delete_multi", "delete_multi", ["h1", "m1"], noreply=False)
    add("close", "close")
    add("disconnect_all", "disconnect_all")
    # commands that are not key-addressed, on the stacks that offer them (a stack without the method is skipped)
    add("raw-version", "raw_command", "version")
    add("raw-get-END", "raw_command", b"get h1", b"END\r\n")
    add("version", "version")
    add("stats", "stats")
    add("stats-settings", "stats", "settings")
    add("flush_all", "flush_all", noreply=False)
    add("flush_all-delay", "flush_all", 3)
    add("quit", "quit")
    # a value the server refuses with SERVER_ERROR (one byte over the item size limit)
    add("set-oversized", "set", "k-big", b"x" * ((1 << 20) + 1), noreply=False)
    add("set-badexpire", "set", "k", b"v", expire="soon")
    add("incr-baddelta", "incr", "num", "1")
    add("get_many", "get_many", ["h1", "m1", "num"])
    add("get_many-tuple", "get_many", ("h1", b"h2"))
    add("get_many-empty", "get_many", [])
    add("get_many-600-keys", "get_many", ["h1", "num"] + ["absent-%03d" % j for j in range(600)])
    add("gets_many-1100-keys", "gets_many", ["absent-%04d" % j for j in range(1100)] + ["h1"])
    add("gets_many", "gets_many", ["h1", "m1", "num"])
    add("delete_many", "delete_many", ["h1", "m1"], noreply=False)
    add("delete_many-default", "delete_many", ["h1", "m1"])
    add("set_many-empty", "set_many", {})
    # one-shot iterables (materialised at call time from the marker) and repeated keys
    add("get_many-iterator", "get_many", ("$iter", ["h1", "m1", "num"]))
    add("get_many-generator", "get_many", ("$gen", ["h1", "num"]))
    add("gets_many-iterator", "gets_many", ("$iter", ["h1", "num"]))
    add("delete_many-generator", "delete_many", ("$gen", ["h1", "m1"]), noreply=False)
    add("get_many-repeated-key", "get_many", ["h1", "m1", "h1", "num", "m1"])
    add("gets_many-repeated-key", "gets_many", ["num", "num"])
    add("get_many-str-and-bytes", "get_many", ["h1", b"h1", "h1"])
    add("delete_many-repeated-key", "delete_many", ["h1", "h1"], noreply=False)
    # item protocol (classes that offer it)
    add("setitem", "__setitem__", "k-item", b"item-value")
    add("setitem-str", "__setitem__", "k-item", "text")
    add("getitem-hit", "__getitem__", "h1")
    add("getitem-miss", "__getitem__", "m1")
    add("delitem", "__delitem__", "h1")
    add("delitem-miss", "__delitem__", "m1")
    # stored values that are falsy but present
    add("getitem-empty-value", "__getitem__", "empty")
    add("getitem-zero", "__getitem__", "zero")
    add("get-empty-value", "get", "empty", D)
    add("gets-empty-value", "gets", "empty", default=D, cas_default=CD)
    add("gat-empty-value", "gat", "empty", expire=5, default=D)
    add("get_many-empty-value", "get_many", ["empty", "zero", "m1"])
    if uni:
        add("set-unicode-key", "set", "clé-☃", b"v", noreply=False)
        add("get_many-unicode", "get_many", ["clé-☃", "h1"])
    return G


def prefill(srv, prefix):
    pre = prefix if isinstance(prefix, bytes) else prefix.encode("ascii")
    for k, v in ((b"h1", b"value-h1"), (b"h2", b"value-h2"), (b"num", b"10"), (b"txt", b"abc"), (b"empty", b""), (b"zero", b"0"),
                 ("clé-☃".encode("utf8"), b"uni")):
        srv.store[pre + k] = Item(v, 0, 0, srv._next_cas())


def build(stack, net, cfg):
    import pymemcache.client.base as base
    import pymemcache.client.hash as hashmod
    from pymemcache.client.retrying import RetryingClient
    kw = dict(cfg, socket_module=net)
    s = ("mc1", 11211)
    if kw.pop("_unix_server", False):
        s = "/var/run/memcached/mc1.sock"           # the server as a UNIX socket path (client.server is then a str)
    if stack == "client":
        return base.Client(s, **kw)
    if stack == "pooled":
        return base.PooledClient(s, **kw)
    if stack == "hash":
        return hashmod.HashClient([s], **kw)
    if stack == "hashpooled":
        return hashmod.HashClient([s], use_pooling=True, **kw)
    return RetryingClient(base.Client(s, **kw), attempts=1)


def run_one(stack, cfg, method, args, kwargs):
    net = FakeNet()
    srv = net.add_server("mc1", 11211, RefServer())
    if cfg.get("_unix_server"):
        net.add_unix("/var/run/memcached/mc1.sock", srv)
    prefill(srv, cfg.get("key_prefix", b""))
    try:
        obj = build(stack, net, cfg)
    except Exception as e:
        return ("ctor-exc", type(e).__name__), [], set(), srv
    net.begin_call(0)
    args = tuple(_materialise(a) for a in args)
    try:
        if method in ("raw_command", "version", "stats", "flush_all", "quit") and stack.startswith("hash"):
            return ("unsupported",), [], set(), srv          # fan-out / not offered: no single-server equivalent
        if method.startswith("__"):
            if not hasattr(type(obj), method):
                return ("unsupported",), [], set(), srv
            r = getattr(type(obj), method)(obj, *args, **kwargs)
        else:
            r = getattr(obj, method)(*args, **kwargs)
        out = ("ret", r)
    except Exception as e:
        out = ("exc", type(e).__name__)
    net.end_call()
    conns = set()
    for s in net.socks:
        if any(h[0] == "sendall" for h in s.history):
            ct = [h[2] for h in s.history if h[0] == "connect"]
            io = {h[2] for h in s.history if h[0] in ("sendall", "recv")}
            conns.add((tuple(s.opts), tuple(ct), tuple(sorted(io, key=repr))))
    return out, [c.sig() for c in srv.cmdlog], conns, srv


def run_session(stack, cfg, ops):
    """several calls in a row on ONE object -> per step (outcome, commands parsed during that step)"""
    net = FakeNet()
    srv = net.add_server("mc1", 11211, RefServer())
    if cfg.get("_unix_server"):
        net.add_unix("/var/run/memcached/mc1.sock", srv)
    prefill(srv, cfg.get("key_prefix", b""))
    try:
        obj = build(stack, net, cfg)
    except Exception as e:
        return [(("ctor-exc", type(e).__name__), [])]
    steps = []
    for i, (label, method, args, kwargs) in enumerate(ops):
        n0 = len(srv.cmdlog)
        net.begin_call(i)
        a = tuple(_materialise(x) for x in args)
        try:
            if method in ("raw_command", "version", "stats", "flush_all", "quit") and stack.startswith("hash"):
                steps.append((("unsupported",), []))
                net.end_call()
                continue
            if method.startswith("__"):
                if not hasattr(type(obj), method):
                    steps.append((("unsupported",), []))
                    net.end_call()
                    continue
                r = getattr(type(obj), method)(obj, *a, **kwargs)
            else:
                r = getattr(obj, method)(*a, **kwargs)
            out = ("ret", r)
        except Exception as e:
            out = ("exc", type(e).__name__)
        net.end_call()
        steps.append((out, [c.sig() for c in srv.cmdlog[n0:]]))
    return steps


def compare_session(res, cfgname, cfg, ops, case):
    ref = run_session("client", cfg, ops)
    res.count("sessions_compared")
    for stack in STACKS[1:]:
        got = run_session(stack, cfg, ops)
        if stack.startswith("hash"):
            # item protocol is not offered by HashClient: the session is not comparable from the first such step on
            cut = next((i for i, (o, _) in enumerate(got) if o == ("unsupported",)), None)
            if cut is not None:
                got, ref_ = got[:cut], ref[:cut]
            else:
                ref_ = ref
        else:
            ref_ = ref
        for i, ((out, cmds), (rout, rcmds)) in enumerate(zip(got, ref_)):
            res.count("session_steps_compared")
            res.count("commands_compared", len(cmds))
            label, method = ops[i][0], ops[i][1]
            hist = [o[0] for o in ops[:i + 1]]
            if not same_out(out, rout):
                res.violation("session:outcome-differs:%s:%s:%s" % (stack, method, cfgname),
                              "config %s, calls %r on one object: step %d %s -> %r ; Client -> %r" % (cfgname, hist, i, stack, _sh(out), _sh(rout)), case)
                break
            if cmds != rcmds:
                res.violation("session:commands-differ:%s:%s:%s" % (stack, method, cfgname),
                              "config %s, calls %r on one object: step %d %s sent %r ; Client sent %r"
                              % (cfgname, hist, i, stack, _sh(cmds), _sh(rcmds)), case)
                break


def _materialise(a):
    if isinstance(a, tuple) and len(a) == 2 and a[0] == "$iter":
        return iter(list(a[1]))
    if isinstance(a, tuple) and len(a) == 2 and a[0] == "$gen":
        return (k for k in a[1])
    return a


def same_out(a, b):
    if a[0] != b[0]:
        return False
    if a[0] == "ret":
        return a[1] == b[1] and type(a[1]) is type(b[1])
    return a[1] == b[1]


def compare(res, cfgname, cfg, label, method, args, kwargs):
    ref_out, ref_cmds, ref_conns, ref_srv = run_one("client", cfg, method, args, kwargs)
    illegal_multi = method in ("get_many", "gets_many", "set_many", "delete_many") and ("bad key" in repr(args))
    case = (cfgname, label)
    res.count("five_way_comparisons")
    for stack in STACKS[1:]:
        out, cmds, conns, srv = run_one(stack, cfg, method, args, kwargs)
        res.count("commands_compared", len(cmds))
        res.count("connections_compared", len(conns))
        if stack.startswith("hash") and illegal_multi:
            continue
        if out == ("unsupported",):
            continue        # the class does not offer this (item protocol on HashClient)
        if stack.startswith("hash") and method == "get_many" and not args[0]:
            pass
        opt = _which_option(cfgname)
        if not same_out(out, ref_out):
            res.violation("outcome-differs:%s:%s:%s" % (stack, method, opt),
                          "config %s: %s.%s%r %r -> %r ; Client -> %r" % (cfgname, stack, method, _sh(args), kwargs, _sh(out), _sh(ref_out)), case)
            continue
        if cmds != ref_cmds:
            res.violation("commands-differ:%s:%s:%s" % (stack, method, opt),
                          "config %s: %s.%s%r %r sent %r ; Client sent %r" % (cfgname, stack, method, _sh(args), kwargs, _sh(cmds), _sh(ref_cmds)), case)
            continue
        if conns and ref_conns and conns != ref_conns:
            res.violation("connection-setup-differs:%s:%s" % (stack, opt),
                          "config %s: %s connections %r ; Client %r" % (cfgname, stack, conns, ref_conns), case)
        if srv.live_items().keys() != ref_srv.live_items().keys():
            res.violation("server-state-differs:%s:%s" % (stack, method), "after %s" % label, case)


def _which_option(cfgname):
    return cfgname


def _sh(x):
    r = repr(x)
    return r if len(r) < 200 else r[:190] + "..."


def shard(tier, seed, idx, n):
    res = common.Result()
    cfgs = configs(tier)
    cfgmap = dict(cfgs)
    work = 0
    for cfgname, cfg in cfgs:
        for label, method, args, kwargs in ops_grid(cfgname):
            work += 1
            if work % n != idx:
                continue
            compare(res, cfgname, cfg, label, method, args, kwargs)
            nontrivial = cfgname != "default" or bool(kwargs) or len(args) > 2
            res.case((cfgname, label) if nontrivial else None,
                     {"config": cfgname, "op": label, "method": method, "args": _sh(args), "kwargs": repr(kwargs)}
                     if res.evaluations % 499 == 0 else None)
    # sessions: the same 3-6 calls in a row on one object of each stack (state kept between calls must not differ)
    rng = random.Random(seed * 7 + 16)
    for cfgname, cfg in cfgs:
        grid = [g for g in ops_grid(cfgname) if "bad key" not in repr(g[2])]
        # targeted: a reply that is a memcached error (not a connection failure), then ordinary calls
        bylabel = {g[0]: g for g in grid}
        for first in ("set-oversized", "incr-txt", "cas-int-illegal"):
            if first not in bylabel:
                continue
            work += 1
            if work % n != idx:
                continue
            ops = [bylabel[first], bylabel["get-hit"], bylabel["set-bytes-False"], bylabel["get_many"], bylabel["incr-num"]]
            compare_session(res, cfgname, cfg, ops, ("session", cfgname, [o[0] for o in ops]))
            res.case(("session", cfgname, tuple(o[0] for o in ops)))
        for si in range(6 if tier == "quick" else 40):
            ops = [rng.choice(grid) for _ in range(rng.randrange(3, 7))]
            work += 1
            if work % n != idx:
                continue
            compare_session(res, cfgname, cfg, ops, ("session", cfgname, [o[0] for o in ops]))
            res.case(("session", cfgname, tuple(o[0] for o in ops)))
    res.extra["configs"] = len(cfgs) if idx == 0 else 0
    return res


def replay(case):
    res = common.Result()
    if case[0] == "session":
        cfgs = dict(configs("thorough"))
        grid = {g[0]: g for g in ops_grid(case[1])}
        compare_session(res, case[1], cfgs[case[1]], [grid[l] for l in case[2]], case)
        res.case(tuple(map(str, case)))
        for c in REQUIRED_COUNTERS:
            res.count(c)
        res.nontrivial.update({1, 2})
        return res
    cfgname, label = case
    cfgs = dict(configs("thorough"))
    cfg = cfgs[cfgname]
    for l, method, args, kwargs in ops_grid(cfgname):
        if l == label:
            compare(res, cfgname, cfg, label, method, args, kwargs)
            for st in STACKS:
                out, cmds, conns, srv = run_one(st, cfg, method, args, kwargs)
                print(st, out, cmds)
    res.case(case)
    for c in REQUIRED_COUNTERS:
        res.count(c)
    res.nontrivial.update({1, 2})
    return res
