"""C18 - FallbackClient: reads fall through in order, writes touch only the primary.

Monitor: a global call log over scripted cache objects (and, second configuration, over the
parsed command logs of reference servers behind real Clients); a call-log checker decides
order, early stop, returned object and write isolation.  Exhaustive over hit/miss
assignments for 1..4 caches."""
import itertools

from vk import common

PROPERTY = "C18"
LEVEL = "exploration"
RULE = ("exhaustive: 1..4 caches x all 3^n assignments of {miss, hit, hit with a falsy non-None value} x reads {get, gets, get_many, gets_many} and writes {set, add, "
        "replace, append, prepend, cas, delete, incr, decr, touch, flush_all} x default and non-default arguments x order given at construction or changed afterwards through .caches; plus sessions of 12 calls on one FallbackClient while the caches' contents change and the order is reconfigured; cas with a token obtained through gets/gets_many from each cache; writes while the primary raises; two threads x one call each on a fresh FallbackClient (every schedule with <= 2, thorough 3, preemptions); plus real "
        "Clients over reference servers as caches (get/get_many/gets_many and all writes). Non-trivial = >=2 caches; distinct by the full case.")
ASSUMPTIONS = [
    "'the configured order' is the current content of the public caches attribute (inserting a new primary, assigning a new list, "
    "dropping the old primary after construction are configuration; the class reads self.caches at every call)",
    "a scripted cache reports a miss as None (get/gets) or {} (multi-key) and a hit as a unique non-None object / non-empty dict",
    "what an all-miss multi-key read returns is only required to be empty (falsy)",
    "a write whose primary raises may pass the error on or not (not judged); it must not reach another cache",
    "two threads sharing one FallbackClient (its caches being thread-safe clients) are each owed the statement for their own call; schedules are those of the deterministic scheduler at line granularity inside fallback.py",
    "FallbackClient.gets over real Clients is not judged: Client.gets reports a miss as (None, None), which fallback.py treats as a hit; the statement's observation point is scripted caches",
]
MIN_NONTRIVIAL = {"quick": 1000, "thorough": 1000}
REQUIRED_COUNTERS = ["cache_calls_logged", "reads_checked", "writes_checked"]
SHARDS = {"quick": 2, "thorough": 4}

READS = ["get", "gets", "get_many", "gets_many"]
WRITES = {
    # name -> list of (args, kwargs, expected positional args at the primary)
    "set": [(("k", "v"), {}, ("k", "v", 0, True)), (("k", "v", 30, False), {}, ("k", "v", 30, False)),
            (("k", "v"), {"expire": 7}, ("k", "v", 7, True)), (("k", "v"), {"noreply": False}, ("k", "v", 0, False)),
            (("k", "v"), {"noreply": None}, ("k", "v", 0, None)), (("k", "v", 0, None), {}, ("k", "v", 0, None))],
    "add": [(("k", "v"), {}, ("k", "v", 0, True)), (("k", "v", 30, False), {}, ("k", "v", 30, False))],
    "replace": [(("k", "v"), {}, ("k", "v", 0, True)), (("k", "v", 30, False), {}, ("k", "v", 30, False))],
    "append": [(("k", "v"), {}, ("k", "v", 0, True)), (("k", "v", 30, False), {}, ("k", "v", 30, False))],
    "prepend": [(("k", "v"), {}, ("k", "v", 0, True)), (("k", "v", 30, False), {}, ("k", "v", 30, False))],
    "cas": [(("k", "v", b"12"), {}, ("k", "v", b"12", 0, True)), (("k", "v", 5, 30, False), {}, ("k", "v", 5, 30, False)),
            (("k", "v", b"12"), {"noreply": None}, ("k", "v", b"12", 0, None))],
    "delete": [(("k",), {}, ("k", True)), (("k", False), {}, ("k", False)), (("k",), {"noreply": None}, ("k", None))],
    "incr": [(("k", 3), {}, ("k", 3, True)), (("k", 3, False), {}, ("k", 3, False))],
    "decr": [(("k", 3), {}, ("k", 3, True)), (("k", 3, False), {}, ("k", 3, False))],
    "touch": [(("k",), {}, ("k", 0, True)), (("k", 9, False), {}, ("k", 9, False)), (("k", 9, None), {}, ("k", 9, None))],
    "flush_all": [((), {}, (0, True)), ((5, False), {}, (5, False))],
}


# unusual expiry arguments travel unchanged (a negative exptime means "expire at once" to memcached; what to do with a
# non-integer is the primary's business, not the forwarder's) - found by C18-r12-2
for _n in ("set", "add", "replace", "append", "prepend"):
    WRITES[_n] += [(("k", "v", -1), {}, ("k", "v", -1, True)), (("k", "v"), {"expire": 1.5, "noreply": False}, ("k", "v", 1.5, False)),
                   (("k", "v"), {"expire": 2 ** 31}, ("k", "v", 2 ** 31, True))]
WRITES["cas"] += [(("k", "v", b"12", -1), {}, ("k", "v", b"12", -1, True)), (("k", "v", b"12"), {"expire": 1.5}, ("k", "v", b"12", 1.5, True))]
WRITES["touch"] += [(("k", -1), {}, ("k", -1, True)), (("k",), {"expire": 1.5}, ("k", 1.5, True))]
WRITES["flush_all"] += [((-1,), {}, (-1, True))]
WRITES["incr"] += [(("k", -3), {}, ("k", -3, True))]


class FalsyHit(bytes):
    """a cached empty value: not None, but falsy"""

    def __new__(cls, idx):
        o = super().__new__(cls, b"")
        o.idx = idx
        return o


class Cache:
    def __init__(self, idx, hit, log, exc=ConnectionResetError):
        self.idx, self.hit, self.log = idx, hit, log
        self.answers = {}
        self.exc = exc

    def _read(self, name, args, multi):
        self.log.append((self.idx, name, args, {}))
        if self.hit == "raises":
            raise self.exc("cache %d is unreachable (scripted)" % self.idx)
        if not self.hit:
            return {} if multi else None
        if self.hit == "falsy" and not multi:
            # a hit whose value is falsy but not None: an empty value, zero, an empty str
            r = FalsyHit(self.idx)
        elif name == "gets":
            r = (("value-from-cache-%d" % self.idx,), b"token-of-cache-%d" % self.idx)       # (value, cas token) as Client.gets gives
        elif name == "gets_many":
            r = {"k1": (("value-from-cache-%d" % self.idx,), b"token-of-cache-%d" % self.idx)}
        else:
            r = {"k1": ("value-from-cache-%d" % self.idx,)} if multi else ("value-from-cache-%d" % self.idx,)
        self.answers[name] = r
        return r

    def get(self, key, *a, **k):
        return self._read("get", (key,) + a, False)

    def gets(self, key, *a, **k):
        return self._read("gets", (key,) + a, False)

    def get_many(self, keys, *a, **k):
        return self._read("get_many", (keys,) + a, True)

    def gets_many(self, keys, *a, **k):
        return self._read("gets_many", (keys,) + a, True)

    def __getattr__(self, name):
        if name in WRITES or name in ("close",):
            def f(*a, **k):
                self.log.append((self.idx, name, a, k))
                if self.hit == "raises":
                    raise self.exc("cache %d is unreachable (scripted)" % self.idx)
                return True
            return f
        raise AttributeError(name)


def normalise(name, args, kwargs):
    """Bind the primary's observed call to positional order (the caches accept Client's convention)."""
    order = {"set": ("key", "value", "expire", "noreply"), "add": ("key", "value", "expire", "noreply"),
             "replace": ("key", "value", "expire", "noreply"), "append": ("key", "value", "expire", "noreply"),
             "prepend": ("key", "value", "expire", "noreply"), "cas": ("key", "value", "cas", "expire", "noreply"),
             "delete": ("key", "noreply"), "incr": ("key", "value", "noreply"), "decr": ("key", "value", "noreply"),
             "touch": ("key", "expire", "noreply"), "flush_all": ("delay", "noreply")}[name]
    out = list(args)
    for nm in order[len(args):]:
        if nm in kwargs:
            out.append(kwargs[nm])
        else:
            break
    return tuple(out)


def build(fallback, caches, reconf):
    """reconf: the order is (re)configured through the public 'caches' attribute after construction"""
    if reconf is None or len(caches) < 2:
        return fallback.FallbackClient(list(caches))
    if reconf == "insert-primary":
        fc = fallback.FallbackClient(list(caches[1:]))
        fc.caches.insert(0, caches[0])
    elif reconf == "assign":
        fc = fallback.FallbackClient(list(reversed(caches)))
        fc.caches = list(caches)
    elif reconf == "drop-old-primary":
        fc = fallback.FallbackClient([Cache(99, True, caches[0].log)] + list(caches))
        del fc.caches[0]
    else:
        raise ValueError(reconf)
    return fc


def run_scripted(res, fallback, n, hits, reconf=None):
    for op in READS + ["get_many:600", "gets_many:1100"]:
        log = []
        caches = [Cache(i, hits[i], log) for i in range(n)]
        fc = build(fallback, caches, reconf)
        arg = ["k1", "k2"] if op.endswith("many") else "k1"
        if ":" in op:
            # one call with hundreds of keys is still one read: one question per cache, the first non-empty answer wins
            op, nk = op.split(":")
            arg = ["k%d" % j for j in range(1, int(nk) + 1)]
        case = ("read", n, hits, op, reconf)
        try:
            r = getattr(fc, op)(arg)
        except Exception as e:
            res.violation("read-raises:" + op, "%s raised %r" % (op, e), case)
            continue
        res.count("cache_calls_logged", len(log))
        res.count("reads_checked")
        first = next((i for i in range(n) if hits[i]), None)
        want_consulted = list(range(n if first is None else first + 1))
        consulted = [e[0] for e in log]
        if consulted != want_consulted:
            key = "consulted-after-answer" if first is not None and len(consulted) > first + 1 else "wrong-consult-order"
            res.violation("%s:%s" % (key, op), "hits %r: consulted caches %r, expected %r" % (hits, consulted, want_consulted), case)
        if any(e[1] != op or e[2][0] != arg for e in log):
            res.violation("read-args-changed:" + op, "log %r" % (log,), case)
        if first is None:
            if r:
                res.violation("all-miss-returns-value:" + op, "returned %r" % (r,), case)
        elif r is not caches[first].answers.get(op):
            res.violation("not-first-hit:" + op, "hits %r: returned %r, first hit is cache %d" % (hits, r, first), case)
        res.case(case if n >= 2 else None, {"caches": n, "hits": hits, "op": op, "consulted": consulted} if res.evaluations % 97 == 0 else None)
    for op, variants in WRITES.items():
        for args, kwargs, want in variants:
            log = []
            caches = [Cache(i, hits[i], log) for i in range(n)]
            fc = build(fallback, caches, reconf)
            case = ("write", n, hits, op, args, kwargs, reconf)
            try:
                getattr(fc, op)(*args, **kwargs)
            except Exception as e:
                res.violation("write-raises:" + op, "%s%r %r raised %r" % (op, args, kwargs, e), case)
                continue
            res.count("cache_calls_logged", len(log))
            res.count("writes_checked")
            touched = sorted({e[0] for e in log})
            if touched != [0]:
                res.violation("write-reaches-fallback:" + op + (":reconfigured" if reconf else ""),
                              "%s touched caches %r%s" % (op, touched, " after the order was changed through .caches (%s)" % reconf if reconf else ""), case)
            prim = [e for e in log if e[0] == 0]
            if len(prim) != 1 or prim[0][1] != op:
                res.violation("write-wrong-call:" + op, "primary saw %r" % (prim,), case)
            elif normalise(op, prim[0][2], prim[0][3]) != want:
                res.violation("write-args-changed:" + op, "primary saw %r %r, caller passed %r %r (expected %r)"
                              % (prim[0][2], prim[0][3], args, kwargs, want), case)
            res.case(case if n >= 2 else None)


def _exc_kinds():
    from pymemcache import exceptions as X
    return [ConnectionRefusedError, ConnectionResetError, TimeoutError, BrokenPipeError, OSError, X.MemcacheServerError,
            X.MemcacheUnexpectedCloseError, X.MemcacheUnknownError]


def run_token_and_outage(res, fallback, n, hits, reconf=None):
    """(a) a cas token that a fallback cache handed out through gets/gets_many is then used in cas(): cas is a mutating
    operation - first cache only, caller's arguments; (b) the primary refuses / fails the write: whatever the caller gets to
    see, the write must not turn up at a fallback cache."""
    first = next((i for i in range(n) if hits[i] is True), None)
    if first is not None and "falsy" not in hits[:first]:
        for op in ("gets", "gets_many"):
            log = []
            caches = [Cache(i, hits[i], log) for i in range(n)]
            fc = build(fallback, caches, reconf)
            case = ("token", n, hits, op, reconf)
            try:
                r = getattr(fc, op)(["k1", "k2"] if op == "gets_many" else "k1")
                token = (r["k1"] if op == "gets_many" else r)[1]
            except Exception as e:
                res.violation("read-raises:" + op, "%s raised %r" % (op, e), case)
                continue
            for step in (1, 2):         # the second cas comes without a new gets
                del log[:]
                try:
                    fc.cas("k1", "new", token, 0, False)
                except Exception as e:
                    res.violation("write-raises:cas", "cas with the token from %s raised %r" % (op, e), case)
                    break
                res.count("cache_calls_logged", len(log))
                res.count("writes_checked")
                res.count("cas_with_a_token_from_a_fallback_cache" if first > 0 else "cas_with_a_token_from_the_primary")
                touched = sorted({e[0] for e in log})
                if touched != [0]:
                    res.violation("write-reaches-fallback:cas:token-from-%s" % op,
                                  "hits %r: %s answered by cache %d, then cas(k1, new, %r) touched caches %r" % (hits, op, first, token, touched), case)
                    break
                prim = [e for e in log if e[0] == 0]
                if len(prim) != 1 or prim[0][1] != "cas" or normalise("cas", prim[0][2], prim[0][3]) != ("k1", "new", token, 0, False):
                    res.violation("write-args-changed:cas", "primary saw %r after %s" % (prim, op), case)
                    break
            res.case(case if n >= 2 else None)
    if n >= 2 and hits[0] is False:
        for ek, exc in enumerate(_exc_kinds()):
            for op, variants in WRITES.items():
                args, kwargs, want = variants[(ek + n) % len(variants)]
                log = []
                caches = [Cache(i, hits[i], log) for i in range(n)]
                caches[0].hit, caches[0].exc = "raises", exc
                fc = build(fallback, caches, reconf)
                case = ("outage", n, hits, op, exc.__name__, reconf)
                try:
                    getattr(fc, op)(*args, **kwargs)
                    res.count("primary_failures_not_passed_on")
                except Exception:
                    res.count("primary_failures_passed_on")
                res.count("cache_calls_logged", len(log))
                res.count("writes_checked")
                touched = sorted({e[0] for e in log})
                if [t for t in touched if t != 0]:
                    res.violation("write-reaches-fallback:" + op + ":primary-fails",
                                  "%s while the primary raises %s touched caches %r" % (op, exc.__name__, touched), case)
                res.case(case)


def run_session(res, fallback, n, seed):
    """one FallbackClient, many calls, the caches' contents changing in between: every call starts again at the first
    cache and writes keep going to the first cache, whatever earlier calls found"""
    import random
    rng = random.Random(seed)
    log = []
    caches = [Cache(i, False, log) for i in range(n)]
    fc = fallback.FallbackClient(list(caches))
    steps = []
    session_writes = {"set": (("k1", "v"), {}), "add": (("k1", "v"), {}), "delete": (("k1",), {}), "incr": (("k1", 1), {}),
                      "touch": (("k1",), {}), "replace": (("k1", "v"), {}), "flush_all": ((), {})}
    raised_before = False
    last_token = None
    for step in range(12):
        if step and rng.random() < 0.12:
            # the order is reconfigured between two calls through the public attribute (see ASSUMPTIONS): caches[i] stays
            # "the i-th configured cache" for the oracle
            how = rng.choice(("rotate", "assign-reversed", "swap-first-two"))
            if how == "rotate":
                fc.caches.append(fc.caches.pop(0))
            elif how == "assign-reversed":
                fc.caches = list(reversed(fc.caches))
            else:
                fc.caches[0], fc.caches[1] = fc.caches[1], fc.caches[0]
            caches = list(fc.caches)
            for i_, c_ in enumerate(caches):
                c_.idx = i_
            steps.append(("reconfigured", how))
            res.count("session_reconfigurations")
        hits = tuple(rng.choice((False, True, "falsy")) for _ in range(n))
        if rng.random() < 0.15:
            # one cache is unreachable during this step (its client raises): what this step does is not judged, the
            # steps after it are - the configured order must be intact again once the cache answers
            j = rng.randrange(n)
            hits = hits[:j] + ("raises",) + hits[j + 1:]
        for c, h in zip(caches, hits):
            c.hit = h
            c.answers = {}
        op = rng.choice(READS + list(session_writes))
        if last_token is not None and rng.random() < 0.5:
            op = "cas"
        if rng.random() < 0.06 and "raises" not in hits:
            # close() closes the clients' connections; like Client.close() it does not retire the object - the next call
            # works (and is judged) like any other
            del log[:]
            fc.close()
            if sorted(e[0] for e in log) != list(range(n)) or any(e[1] != "close" for e in log):
                res.violation("session:close-does-not-close-every-cache", "close() made the calls %r" % (log,), ("session", n, seed, step))
                return
            steps.append(("closed",))
            res.count("session_closes")
        steps.append((hits, op))
        case = ("session", n, seed, step)
        del log[:]
        try:
            if op in READS:
                arg = ["k1", "k2"] if op.endswith("many") else "k1"
                r = getattr(fc, op)(arg)
            elif op == "cas":
                fc.cas("k1", "v", last_token)
                last_token = None
            else:
                args, kwargs = session_writes[op]
                getattr(fc, op)(*args, **kwargs)
        except ConnectionResetError:
            if "raises" in hits:
                res.count("session_steps_with_an_unreachable_cache")
                raised_before = True
                continue
            res.violation("session:raises:" + op, "step %d %s raised although every cache answers; steps %r" % (step, op, steps), case)
            return
        except Exception as e:
            res.violation("session:raises:" + op, "step %d %s raised %r after %r" % (step, op, e, steps), case)
            return
        if "raises" in hits:
            res.count("session_steps_with_an_unreachable_cache")
            raised_before = True
            continue
        res.count("cache_calls_logged", len(log))
        res.count("session_steps")
        consulted = [e[0] for e in log]
        if op in READS:
            res.count("reads_checked")
            first = next((i for i in range(n) if hits[i]), None)
            want_consulted = list(range(n if first is None else first + 1))
            if consulted != want_consulted:
                res.violation("session:wrong-caches-consulted:" + op, "step %d of %r: consulted %r, expected %r"
                              % (step, steps, consulted, want_consulted), case)
                return
            if first is not None and r is not caches[first].answers.get(op):
                res.violation("session:not-first-hit:" + op, "step %d of %r: returned %r" % (step, steps, r), case)
                return
            if first is None and r:
                res.violation("session:all-miss-returns-value:" + op, "step %d of %r: returned %r" % (step, steps, r), case)
                return
            if first is not None and hits[first] is True and op in ("gets", "gets_many"):
                last_token = (r["k1"] if op == "gets_many" else r)[1]
        else:
            res.count("writes_checked")
            if consulted != [0]:
                res.violation("session:write-reaches-fallback:" + op, "step %d of %r: caches touched %r" % (step, steps, consulted), case)
                return
    res.case(("session", n, seed))


def run_real(res, fallback, n, hits):
    """Real Clients over reference servers: server i holds key k1 iff hits[i]."""
    from vk.fakenet import FakeNet
    from vk.refserver import Item
    import pymemcache.client.base as base
    net = FakeNet()
    servers = []
    clients = []
    for i in range(n):
        srv = net.add_server("mc%d" % i, 11211)
        if hits[i]:
            srv.store[b"k1"] = Item(b"value-%d" % i, 0, 0, srv._next_cas())
        servers.append(srv)
        clients.append(base.Client(("mc%d" % i, 11211), socket_module=net, default_noreply=False))
    fc = fallback.FallbackClient(clients)
    first = next((i for i in range(n) if hits[i]), None)
    for op in ("get", "get_many", "gets_many"):
        before = [len(s.cmdlog) for s in servers]
        arg = ["k1", "k2"] if op.endswith("many") else "k1"
        case = ("real-read", n, hits, op)
        r = getattr(fc, op)(arg)
        consulted = [i for i in range(n) if len(servers[i].cmdlog) > before[i]]
        res.count("cache_calls_logged", sum(len(s.cmdlog) - b for s, b in zip(servers, before)))
        res.count("reads_checked")
        want = list(range(n if first is None else first + 1))
        if consulted != want:
            res.violation("real:wrong-servers-consulted:" + op, "hits %r: servers contacted %r expected %r" % (hits, consulted, want), case)
        if first is None:
            if r:
                res.violation("real:all-miss-returns-value:" + op, repr(r), case)
        else:
            v = b"value-%d" % first
            good = (r == v) if op == "get" else (r == {"k1": v} if op == "get_many" else (set(r) == {"k1"} and r["k1"][0] == v))
            if not good:
                res.violation("real:not-first-hit:" + op, "returned %r, first hit is server %d" % (r, first), case)
        res.case(case if n >= 2 else None)
    for op, variants in WRITES.items():
        args, kwargs, want = variants[0]
        if op == "incr" or op == "decr":
            pass
        before = [len(s.cmdlog) for s in servers]
        case = ("real-write", n, hits, op)
        try:
            getattr(fc, op)(*args, **kwargs)
        except Exception as e:
            # e.g. incr on a non-numeric value: the server's answer, still only the primary may be touched
            res.count("real_write_exceptions")
        touched = [i for i in range(n) if len(servers[i].cmdlog) > before[i]]
        res.count("writes_checked")
        if touched != [0]:
            res.violation("real:write-reaches-fallback:" + op, "servers touched %r" % (touched,), case)
        else:
            c = servers[0].cmdlog[-1]
            if c.verb.decode() != op:
                res.violation("real:write-wrong-verb:" + op, "primary parsed %r" % (c,), case)
        res.case(case if n >= 2 else None)


def nested(res, fallback):
    """A configured cache may itself be a FallbackClient - or a subclass of it that does something of its own (namespaces keys,
    counts, logs): it is one cache in the configured order, consulted and written through its own methods."""
    log = []

    class Recording(fallback.FallbackClient):
        def __init__(self, caches, tag):
            fallback.FallbackClient.__init__(self, caches)
            self.tag = tag

    def rec(name):
        def m(self, *a, **k):
            log.append((self.tag, name, a, k))
            return getattr(fallback.FallbackClient, name)(self, *a, **k)
        return m
    for nm in READS + list(WRITES):
        setattr(Recording, nm, rec(nm))
    for hits in itertools.product((False, True), repeat=3):
        for shape in ("first-is-nested", "second-is-nested", "both-nested"):
            del log[:]
            inner_log = []
            c = [Cache(i, hits[i], inner_log) for i in range(3)]
            if shape == "first-is-nested":
                caches, order = [Recording([c[0], c[1]], "A"), c[2]], ["A", 2]
            elif shape == "second-is-nested":
                caches, order = [c[0], Recording([c[1], c[2]], "B")], [0, "B"]
            else:
                caches, order = [Recording([c[0]], "A"), Recording([c[1], c[2]], "B")], ["A", "B"]
            fc = fallback.FallbackClient(caches)
            case = ("nested", hits, shape)
            for op in READS:
                del log[:]
                del inner_log[:]
                arg = ["k1", "k2"] if op.endswith("many") else "k1"
                try:
                    r = getattr(fc, op)(arg)
                except Exception as e:
                    res.violation("nested:read-raises:" + op, "%s raised %r" % (op, e), case)
                    continue
                res.count("reads_checked")
                res.count("cache_calls_logged", len(log) + len(inner_log))
                consulted = [e[0] for e in inner_log]
                first = next((i for i in range(3) if hits[i]), None)
                want = list(range(3 if first is None else first + 1))
                if consulted != want:
                    res.violation("nested:wrong-caches-consulted:" + op, "hits %r, %s: inner caches consulted %r, expected %r" % (hits, shape, consulted, want), case)
                # every nested client that had to be consulted was consulted through its own method
                def holds(tag):
                    return {"A": [0, 1] if shape == "first-is-nested" else [0], "B": [1, 2]}[tag]
                want_tags = [t for t in order if isinstance(t, str) and (first is None or min(holds(t)) <= first)]
                got_tags = [e[0] for e in log if e[1] == op]
                if got_tags != want_tags:
                    res.violation("nested:configured-cache-bypassed:" + op, "hits %r, %s: nested clients asked %r, expected %r (their inner caches were "
                                  "consulted %r)" % (hits, shape, got_tags, want_tags, consulted), case)
            for op, variants in WRITES.items():
                args, kwargs, want_args = variants[0]
                del log[:]
                del inner_log[:]
                try:
                    getattr(fc, op)(*args, **kwargs)
                except Exception as e:
                    res.violation("nested:write-raises:" + op, "%s raised %r" % (op, e), case)
                    continue
                res.count("writes_checked")
                if [e[0] for e in inner_log] != [0]:
                    res.violation("nested:write-reaches-fallback:" + op, "%s, %s: inner caches written %r" % (op, shape, [e[0] for e in inner_log]), case)
                if isinstance(order[0], str) and [e[0] for e in log] != [order[0]]:
                    res.violation("nested:configured-cache-bypassed:" + op, "%s, %s: the first configured cache is a nested client; calls on nested "
                                  "clients: %r" % (op, shape, [(e[0], e[1]) for e in log]), case)
            res.case(case)
            res.count("nested_configurations")


def _codes_of(cls):
    out = []

    def walk(code):
        if code in out:
            return
        out.append(code)
        for c in code.co_consts:
            if hasattr(c, "co_code"):
                walk(c)
    for f in vars(cls).values():
        f = getattr(f, "__func__", f)
        if callable(f) and hasattr(f, "__code__"):
            walk(f.__code__)
    return out


def two_threads(res, fallback, tier):
    """Two threads share one FallbackClient (its caches being thread-safe clients), one call each, starting on a fresh
    object; every schedule with at most P preemptions at line granularity inside fallback.py.  Each caller's own call must
    consult the caches in order up to the first hit and return that hit; a write goes to the first cache only."""
    from vk import sched as S
    S.install(_codes_of(fallback.FallbackClient), "line")
    P = 2 if tier == "quick" else 3
    programs = [("get", "get"), ("get_many", "get_many"), ("gets", "gets"), ("gets_many", "gets_many"), ("get", "gets"), ("get", "set"),
                ("gets", "cas"), ("get_many", "delete")]
    for n, hits in ((2, (False, True)), (3, (False, False, True)), (3, (False, True, True)), (2, (False, False))):
        for pa, pb in programs:
            def make(sch, n=n, hits=hits, pa=pa, pb=pb):
                log = []

                class TCache(Cache):
                    def _read(self_, name, args, multi):
                        r = Cache._read(self_, name, args, multi)
                        log[-1] = log[-1] + (sch.me(),)
                        return r

                    def __getattr__(self_, name):
                        f = Cache.__getattr__(self_, name)

                        def g(*a, **k):
                            r = f(*a, **k)
                            log[-1] = log[-1] + (sch.me(),)
                            return r
                        return g
                caches = [TCache(i, hits[i], log) for i in range(n)]
                fc = fallback.FallbackClient(list(caches))
                outs = {}

                def prog(t, op):
                    def run():
                        try:
                            if op in READS:
                                outs[t] = ("ret", getattr(fc, op)(["k1", "k2"] if op.endswith("many") else "k1"))
                            elif op == "cas":
                                outs[t] = ("ret", fc.cas("k1", "v", b"1"))
                            elif op == "set":
                                outs[t] = ("ret", fc.set("k1", "v"))
                            else:
                                outs[t] = ("ret", fc.delete("k1"))
                        except S.SchedAbort:
                            raise
                        except BaseException as e:
                            outs[t] = ("exc", e)
                    return run

                def judge(ok, sch_):
                    res.count("cache_calls_logged", len(log))
                    first = next((i for i in range(n) if hits[i]), None)
                    for t, op in ((0, pa), (1, pb)):
                        mine = [e for e in log if e[-1] == t]
                        consulted = [e[0] for e in mine]
                        out = outs.get(t)
                        if out is None or out[0] != "ret":
                            return ("two-threads:raises:" + op, "thread %d's %s -> %r" % (t, op, out))
                        if op in READS:
                            res.count("reads_checked")
                            want = list(range(n if first is None else first + 1))
                            if consulted != want:
                                return ("two-threads:wrong-caches-consulted:" + op, "thread %d's %s consulted %r, expected %r (hits %r)"
                                        % (t, op, consulted, want, hits))
                            if first is not None and out[1] != caches[first].answers.get(op):
                                return ("two-threads:not-first-hit:" + op, "thread %d's %s returned %r" % (t, op, out[1]))
                            if first is None and out[1]:
                                return ("two-threads:all-miss-returns-value:" + op, "thread %d's %s returned %r" % (t, op, out[1]))
                        else:
                            res.count("writes_checked")
                            if consulted != [0] or mine[0][1] != op:
                                return ("two-threads:write-reaches-fallback:" + op, "thread %d's %s: calls %r" % (t, op, mine))
                    return None
                return [prog(0, pa), prog(1, pb)], judge

            def on_run(sch, n=n, hits=hits, pa=pa, pb=pb):
                res.count("two_thread_schedules")
                sig = tuple((i, a, b) for i, a, b, pre in sch.switches)
                res.case(("two-threads", n, hits, pa, pb, sig) if sch.switches else None)
            ex, exhaustive, bad = S.explore_threads(make, 2, P, 300 if tier == "quick" else 3000, on_run)
            if bad:
                res.violation(bad[0], bad[1] + " ; program (%s || %s), schedule %r" % (pa, pb, sorted(bad[2].items(), key=repr)),
                              ("two-threads", n, hits, pa, pb))


def shard(tier, seed, idx, n_sh):
    res = common.Result()
    from pymemcache import fallback
    work = 0
    for n in (1, 2, 3, 4):
        for hits in itertools.product((False, True, "falsy"), repeat=n):
            work += 1
            if work % n_sh != idx:
                continue
            run_scripted(res, fallback, n, hits)
            run_token_and_outage(res, fallback, n, hits)
            if n >= 2:
                for reconf in ("insert-primary", "assign", "drop-old-primary"):
                    run_scripted(res, fallback, n, hits, reconf)
                    run_token_and_outage(res, fallback, n, hits, reconf)
                    res.count("reconfigured_clients")
            if "falsy" not in hits:
                run_real(res, fallback, n, hits)
    for si in range(200 if tier == "quick" else 2000):
        work += 1
        if work % n_sh != idx:
            continue
        run_session(res, fallback, 2 + si % 3, seed * 100003 + si)
    if idx == n_sh - 1:
        two_threads(res, fallback, tier)
    if idx == 0:
        nested(res, fallback)
    res.extra["exhaustive"] = True
    res.extra["exhaustive_part"] = "1..4 caches x all hit/miss assignments x all reads and writes"
    return res


def replay(case):
    res = common.Result()
    from pymemcache import fallback
    n, hits = case[1], case[2]
    if case[0] == "session":
        run_session(res, fallback, case[1], case[2])
    elif case[0] == "two-threads":
        two_threads(res, fallback, "quick")
    elif case[0] == "nested":
        nested(res, fallback)
    elif case[0] in ("token", "outage"):
        run_token_and_outage(res, fallback, n, hits, case[-1])
    elif case[0].startswith("real"):
        run_real(res, fallback, n, hits)
    else:
        run_scripted(res, fallback, n, hits, case[-1] if case[-1] in ("insert-primary", "assign", "drop-old-primary") else None)
    res.case(case)
    return res
