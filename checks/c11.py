"""C11 - key placement is a pure, order-independent, minimally disruptive function.

Monitors: (1) every RendezvousHash.get_node result is compared with an independent
implementation of the published rule on top of the independent murmur3 (C14's reference);
(2) hashers holding the same node *set* built by all insertion orders and by add/remove
histories must agree; (3) removing/adding a node moves only the permitted keys; (4) the
server actually contacted by HashClient (FakeNet connection log) is the rule's winner,
whatever the spelling of the server address; (5) placement digests computed in separate
interpreter processes under different PYTHONHASHSEED values are equal; (6) balance."""
import hashlib
import itertools
import os
import random
import subprocess
import sys

from vk import common, refs

PROPERTY = "C11"
LEVEL = "exploration"
RULE = ("node sets of 1..8 nodes (TCP names, unix paths, names that are prefixes of one another, names with '-') x all "
        "permutations up to 5 nodes (thorough 6) x all add/remove histories up to length 5 over 4 nodes (thorough 6 over 5) x key "
        "corpora (2000 / 20000 keys incl. long and non-ASCII) x forced-tie hash functions x 8 PYTHONHASHSEED subprocesses x "
        "HashClient server spellings; two threads x 1..2 look-ups each on one hasher, every schedule with <= 2 (thorough 3) preemptions. Non-trivial = node set size >=2; distinct by (node set, order/history, hash function, key batch).")
ASSUMPTIONS = [
    "the published rule: highest murmur3_32('<node>-<key>') wins, ties go to the greatest node name",
    "for keys with code points >255 the reference defines no value; only order-independence/determinism are checked there",
    "balance is judged only for >=2000 keys: every node's share within 0.5x..1.5x of the mean",
    "'depends only on the key and the set of servers' holds for each caller of a shared hasher: two threads looking keys up on one RendezvousHash (no membership change in progress) each get the rule's winner; schedules are those of the deterministic scheduler at line granularity inside RendezvousHash",
]
MIN_NONTRIVIAL = {"quick": 1500, "thorough": 20000}
REQUIRED_COUNTERS = ["placements_vs_reference", "order_pairs_compared", "subprocess_digests", "contacts_vs_rule",
                     "disruption_checks"]
SHARDS = {"quick": 16, "thorough": 16}
TIMEOUT = {"quick": 600, "thorough": 3600}

NODESETS = [
    ["127.0.0.1:11211"],
    ["127.0.0.1:11211", "127.0.0.1:11212"],
    ["a:1", "b:1", "c:1"],
    ["mc1:11211", "mc10:11211", "mc100:11211", "mc1:1121"],
    ["/var/run/mc-1.sock", "/var/run/mc-2.sock", "cache-a:11211", "cache-a-b:11211", "cache:11211"],
    ["n%d.example.com:11211" % i for i in range(6)],
    ["10.0.0.%d:11211" % i for i in range(1, 9)],
    ["x-y:1", "x:1", "x-y-z:1", "-:1"],
]


def corpus(n, rng, latin1_only=False):
    ks = []
    for i in range(n):
        m = i % 7
        if m == 0:
            ks.append(str(i))
        elif m == 1:
            ks.append("user:%d:profile" % rng.randrange(10 ** 6))
        elif m == 2:
            ks.append("".join(chr(rng.randrange(0x21, 0x7F)) for _ in range(rng.randrange(1, 40))))
        elif m == 3:
            ks.append("k" * rng.randrange(1, 250))
        elif m == 4:
            ks.append("".join(chr(rng.randrange(0xA1, 0x100)) for _ in range(rng.randrange(1, 10))))
        elif m == 5:
            ks.append("clé-%d" % i if latin1_only else "ключ-%d-☃" % i)
        else:
            ks.append("a-b-%d" % i)
    return ks


def tie_const(s, seed):
    return 7


def tie_len(s, seed):
    return len(s)


def tie_mod3(s, seed):
    return sum(map(ord, s)) % 3


def wide64(s, seed):
    """a 64-bit hash function (a plug-in such as xxhash64 / mmh3.hash64): scores above 2**32 must keep their order"""
    return int.from_bytes(hashlib.blake2b(s.encode("utf8", "surrogatepass"), digest_size=8).digest(), "big")


def hi32(s, seed):
    """all the information in the bits above 2**32"""
    return wide64(s, seed) >> 32 << 32


HASHES = {"murmur3": None, "const": tie_const, "len": tie_len, "mod3": tie_mod3, "wide64": wide64, "hi32": hi32}


def make(rendezvous, nodes, hname):
    h = rendezvous.RendezvousHash() if HASHES[hname] is None else rendezvous.RendezvousHash(hash_function=HASHES[hname])
    for nd in nodes:
        h.add_node(nd)
    return h


def ref_winner(nodes, key, hname):
    fn = HASHES[hname]
    if fn is None:
        return refs.rendezvous_ref(nodes, key)
    return refs.rendezvous_ref(nodes, key, hashfn=fn)


def check_set(res, rendezvous, nodes, keys, hname, tier, rng, label):
    """reference equality + order independence over permutations"""
    base = make(rendezvous, nodes, hname)
    place = {}
    for k in keys:
        got = base.get_node(k)
        place[k] = got
        exp = ref_winner(nodes, k, hname)
        if exp is NotImplemented:
            res.count("placements_nonlatin1")
            if got not in nodes:
                res.violation("winner-not-a-node", "get_node(%r) -> %r" % (k, got), (label, nodes, hname, k))
            continue
        res.count("placements_vs_reference")
        if got != exp:
            res.violation("differs-from-published-rule:%s" % hname,
                          "nodes %r key %r: get_node -> %r, rule -> %r" % (nodes, k, got, exp), (label, nodes, hname, k))
    maxperm = 5 if tier == "quick" else 6
    if len(nodes) <= maxperm:
        perms = list(itertools.permutations(nodes))
    else:
        perms = [tuple(rng.sample(nodes, len(nodes))) for _ in range(24 if tier == "quick" else 200)] + [tuple(reversed(nodes))]
    for perm in perms:
        h = make(rendezvous, perm, hname)
        res.count("order_pairs_compared")
        bad = [k for k in keys if h.get_node(k) != place[k]]
        if bad:
            res.violation("order-dependent:%s" % hname,
                          "same node set, insertion order %r vs %r: key %r -> %r vs %r"
                          % (list(perm), nodes, bad[0], h.get_node(bad[0]), place[bad[0]]), (label, list(perm), hname, bad[0]))
        res.case((tuple(sorted(nodes)), perm, hname, len(keys)) if len(nodes) >= 2 else None,
                 {"nodes": list(perm), "hash": hname, "keys": len(keys), "sample": [(k, place[k]) for k in keys[:3]]}
                 if res.evaluations % 211 == 0 else None)
    return place


def check_histories(res, rendezvous, universe, keys, hname, maxlen, rng, exhaustive, samples):
    """all add/remove histories: final placement depends on the final set only; each step moves only permitted keys"""
    cache = {}

    def canonical(nodeset):
        fs = frozenset(nodeset)
        if fs not in cache:
            h = make(rendezvous, sorted(fs), hname)
            cache[fs] = {k: h.get_node(k) for k in keys}
        return cache[fs]

    events = [("add", u) for u in universe] + [("rm", u) for u in universe]
    if exhaustive:
        seqs = itertools.chain.from_iterable(itertools.product(events, repeat=L) for L in range(1, maxlen + 1))
    else:
        seqs = (tuple(rng.choice(events) for _ in range(rng.randrange(1, maxlen + 1))) for _ in range(samples))
    for sj_, seq in enumerate(s_ for s_ in seqs for _ in (0, 1)):
        si_, mode = sj_ // 2, sj_ % 2
        seq0 = seq
        h = rendezvous.RendezvousHash() if HASHES[hname] is None else rendezvous.RendezvousHash(hash_function=HASHES[hname])
        cur = []
        if si_ % 3 == 1:
            # a hasher seeded through the constructor with an unsorted list (adopted as given), then the same history
            seedlist = [universe[-1], universe[0]] if len(universe) > 1 else list(universe)
            kw = {} if HASHES[hname] is None else {"hash_function": HASHES[hname]}
            h = rendezvous.RendezvousHash(nodes=list(seedlist), **kw)
            cur = list(seedlist)
            res.count("histories_seeded_through_constructor")
        valid = True
        prev = {k: (h.get_node(k) if cur else None) for k in keys}
        if mode == 1 and len(seq) < 2:
            continue
        if mode == 1:
            # sparse look-ups: keys are looked up only after some of the steps (bit i of the history's number), so that
            # several membership changes happen between two look-ups; only the final placement is judged here
            valid, cur = _sparse_history(h, cur, seq, keys, si_)
            if not valid:
                continue
            res.count("histories_with_sparse_lookups")
            prev = {k: (h.get_node(k) if cur else None) for k in keys}
            seq = ()
        for ev, u in seq:
            if ev == "add":
                h.add_node(u)
                if u not in cur:
                    cur.append(u)
                    new = {k: h.get_node(k) for k in keys}
                    res.count("disruption_checks")
                    moved_wrong = [k for k in keys if new[k] != prev[k] and new[k] != u and prev[k] is not None]
                    if moved_wrong:
                        k = moved_wrong[0]
                        res.violation("add-moves-key-to-other-node:%s" % hname,
                                      "adding %r moved key %r from %r to %r" % (u, k, prev[k], new[k]), ("hist", seq, hname, k))
                    prev = new
            else:
                if u not in cur:
                    valid = False       # removing an absent node raises by design; not part of a valid history
                    break
                h.remove_node(u)
                cur.remove(u)
                new = {k: h.get_node(k) for k in keys}
                res.count("disruption_checks")
                moved_wrong = [k for k in keys if new[k] != prev[k] and prev[k] != u]
                if moved_wrong:
                    k = moved_wrong[0]
                    res.violation("remove-moves-unrelated-key:%s" % hname,
                                  "removing %r moved key %r from %r to %r" % (u, k, prev[k], new[k]), ("hist", seq, hname, k))
                prev = new
        if not valid:
            continue
        want = canonical(cur)
        bad = [k for k in keys if prev[k] != want[k]] if cur else [k for k in keys if prev[k] is not None]
        res.count("order_pairs_compared")
        if bad:
            res.violation("history-dependent:%s" % hname,
                          "history %r ends with set %r but key %r -> %r; a fresh hasher on that set says %r"
                          % (seq0, sorted(cur), bad[0], prev[bad[0]], want.get(bad[0]) if cur else None), ("hist", seq0, hname, bad[0]))
        res.case(("hist", seq0, hname, mode) if len(cur) >= 2 else None)


def _sparse_history(h, cur, seq, keys, mask):
    cur = list(cur)
    for i, (ev, u) in enumerate(seq):
        if ev == "add":
            h.add_node(u)
            if u not in cur:
                cur.append(u)
        else:
            if u not in cur:
                return False, cur
            h.remove_node(u)
            cur.remove(u)
        if (mask >> i) & 1 and cur:
            for k in keys:
                h.get_node(k)
    return True, cur


DIGEST_SCRIPT = r"""
import sys, hashlib
sys.path.insert(0, %r)
from pymemcache.client.rendezvous import RendezvousHash
from pymemcache.client.hash import HashClient
nodesets = %r
keys = %r
d = hashlib.sha256()
for ns in nodesets:
    h = RendezvousHash()
    for n in ns: h.add_node(n)
    for k in keys: d.update(repr((ns, k, h.get_node(k))).encode('utf8'))
hc = HashClient([('10.0.0.1', 11211), '10.0.0.2:11211', '/tmp/x.sock'])
for k in keys: d.update(repr(hc.hasher.get_node(k)).encode('utf8'))
print(d.hexdigest())
"""


def check_processes(res, keys, nseeds):
    script = DIGEST_SCRIPT % (common.REPO, NODESETS, keys[:300])
    digests = {}
    for sd in ["0", "1", "2", "42", "1000", "4294967295", "random", "777"][:nseeds]:
        env = dict(os.environ, PYTHONHASHSEED=sd)
        p = subprocess.run([common.PY, "-c", script], env=env, stdout=subprocess.PIPE, stderr=subprocess.PIPE, timeout=120)
        if p.returncode != 0:
            res.inconclusive.append("digest subprocess failed: %s" % p.stderr[-300:])
            return
        digests[sd] = p.stdout.strip()
        res.count("subprocess_digests")
    if len(set(digests.values())) != 1:
        res.violation("process-dependent-placement", "digests differ across PYTHONHASHSEED: %r" % digests, ("digests",))
    res.case(("digests", tuple(sorted(digests))))


def check_hashclient(res, tier, rng):
    """the server actually contacted is the rule's winner; equivalent spellings agree"""
    from vk.fakenet import FakeNet
    import pymemcache.client.hash as hashmod
    keys = corpus(300 if tier == "quick" else 3000, rng, latin1_only=True)
    keys = [k for k in keys if refs.key_legal(k, True)[0] and k]
    # plain names, and names with capitals / dots / dashes (a host name is taken as it is written: the node is named
    # '<host>:<port>' with exactly those characters, whatever the spelling of the server spec)
    for h1, h2, h3 in (("h1", "h2", "h3"), ("Cache-A", "cache-b.Example.COM", "H3")):
        spell_sets = [
            [(h1, 11211), (h2, 11211), (h3, 11212)],
            ["%s:11211" % h1, "%s:11211" % h2, "%s:11212" % h3],
            [h1, h2, (h3, 11212)],
            [(h3, 11212), h2, "%s:11211" % h1],
        ]
        results = []
        for spelling in spell_sets:
            net = FakeNet()
            servers = {}
            for host, port in ((h1, 11211), (h2, 11211), (h3, 11212)):
                servers["%s:%d" % (host, port)] = net.add_server(host, port)
            hc = hashmod.HashClient(spelling, socket_module=net, allow_unicode_keys=True)
            placed = {}
            for k in keys if h1 == "h1" else keys[:120]:
                before = {n: len(s.cmdlog) for n, s in servers.items()}
                try:
                    hc.get(k)
                except Exception as e:
                    res.violation("contacted-server-is-not-the-winner:%s" % type(e).__name__,
                                  "HashClient(%r).get(%r) raised %r" % (spelling, k, e), ("hc", spelling, k))
                    break
                hit = [n for n, s in servers.items() if len(s.cmdlog) > before[n]]
                placed[k] = hit
                exp = refs.rendezvous_ref(list(servers), k)
                res.count("contacts_vs_rule")
                if exp is not NotImplemented and hit != [exp]:
                    res.violation("contacted-server-is-not-the-winner",
                                  "HashClient(%r).get(%r) contacted %r, rule says %r" % (spelling, k, hit, exp), ("hc", spelling, k))
            results.append(placed)
            res.case(("hc", repr(spelling)))
        for sp, r in zip(spell_sets[1:], results[1:]):
            diff = [k for k in r if k in results[0] and r[k] != results[0][k]]
            if diff:
                res.violation("spelling-dependent-placement", "spelling %r places %r on %r, tuples place it on %r"
                              % (sp, diff[0], r[diff[0]], results[0][diff[0]]), ("hc-spelling", sp, diff[0]))
    # IPv6 literals: the node is still named '<host>:<port>' (what other rendezvous implementations are given)
    v6 = [("::1", 11211), ("2001:db8::2", 11211), ("fe80::3", 11212), ("h4", 11211)]
    v6_results = []
    for spelling in (list(v6), ["[::1]:11211", "2001:db8::2:11211", ("fe80::3", 11212), "h4"], list(reversed(v6))):
        net = FakeNet()
        servers = {"%s:%d" % (host, port): net.add_server(host, port) for host, port in v6}
        hc = hashmod.HashClient(spelling, socket_module=net, allow_unicode_keys=True)
        placed = {}
        for k in keys[:150]:
            before = {n: len(s.cmdlog) for n, s in servers.items()}
            hc.get(k)
            hit = [n for n, s in servers.items() if len(s.cmdlog) > before[n]]
            placed[k] = hit
            exp = refs.rendezvous_ref(list(servers), k)
            res.count("contacts_vs_rule")
            if exp is not NotImplemented and hit != [exp]:
                res.violation("contacted-server-is-not-the-winner:ipv6",
                              "HashClient(%r).get(%r) contacted %r, rule over nodes %r says %r" % (spelling, k, hit, sorted(servers), exp),
                              ("hc6", spelling, k))
        v6_results.append(placed)
        res.case(("hc6", repr(spelling)))
    for sp, r in zip(("bracketed strings", "reversed"), v6_results[1:]):
        diff = [k for k in keys[:150] if r[k] != v6_results[0][k]]
        if diff:
            res.violation("spelling-dependent-placement:ipv6", "%s: %r placed on %r, tuples place it on %r"
                          % (sp, diff[0], r[diff[0]], v6_results[0][diff[0]]), ("hc6-spelling", sp, diff[0]))
    # public remove_server(): when it raises (upstream raises KeyError for a server without a failure record) the rotation
    # is what it was; when it returns, only that server's keys move
    for target in (("h2", 11211), "h2:11211"):
        net = FakeNet()
        servers = {}
        for host, port in (("h1", 11211), ("h2", 11211), ("h3", 11212)):
            servers["%s:%d" % (host, port)] = net.add_server(host, port)
        hc = hashmod.HashClient([("h1", 11211), ("h2", 11211), ("h3", 11212)], socket_module=net, allow_unicode_keys=True)

        def placement():
            out = {}
            for k in keys[:150]:
                before = {n_: len(s_.cmdlog) for n_, s_ in servers.items()}
                try:
                    hc.get(k)
                except Exception as e:
                    out[k] = ["raises %s" % type(e).__name__]
                    continue
                out[k] = [n_ for n_, s_ in servers.items() if len(s_.cmdlog) > before[n_]]
            return out
        p0 = placement()
        try:
            if isinstance(target, tuple):
                hc.remove_server(*target)
            else:
                hc.remove_server(target)
            raised = None
        except Exception as e:
            raised = e
        p1 = placement()
        res.count("contacts_vs_rule", 300)
        moved = [k for k in p0 if p1[k] != p0[k]]
        if raised is not None and moved:
            res.violation("failed-remove_server-changed-placement",
                          "remove_server(%r) raised %r, yet %d of 150 keys moved (e.g. %r: %r -> %r)"
                          % (target, raised, len(moved), moved[0], p0[moved[0]], p1[moved[0]]), ("hc-remove", repr(target)))
        if raised is None:
            wrong = [k for k in moved if p0[k] != ["h2:11211"]]
            if wrong:
                res.violation("remove_server-moves-unrelated-key", "remove_server(%r) moved key %r from %r to %r"
                              % (target, wrong[0], p0[wrong[0]], p1[wrong[0]]), ("hc-remove", repr(target)))
        res.case(("hc-remove", repr(target), raised is None))
    # add_server(host, port) and unix spellings
    net = FakeNet()
    net.add_server("h1", 11211)
    net.add_unix("/tmp/mc.sock")
    a = hashmod.HashClient([("h1", 11211), "unix:/tmp/mc.sock"], socket_module=net)
    b = hashmod.HashClient(["/tmp/mc.sock"], socket_module=net)
    b.add_server("h1", 11211)
    for k in keys[:200]:
        res.count("contacts_vs_rule")
        if a.hasher.get_node(k) != b.hasher.get_node(k):
            res.violation("spelling-dependent-placement", "unix:/path vs /path or add_server(host, port): key %r -> %r vs %r"
                          % (k, a.hasher.get_node(k), b.hasher.get_node(k)), ("hc-unix", k))
    res.case(("hc", "unix+add_server"))


def check_balance(res, rendezvous, nodes, keys):
    h = make(rendezvous, nodes, "murmur3")
    counts = {n: 0 for n in nodes}
    for k in keys:
        counts[h.get_node(k)] += 1
    mean = len(keys) / len(nodes)
    res.count("balance_checks")
    for n, c in counts.items():
        res.maximum("max_share_over_mean_x1000", int(1000 * c / mean))
        if not (0.5 * mean <= c <= 1.5 * mean):
            res.violation("unbalanced", "node %r got %d of %d keys (mean %.0f) among %r" % (n, c, len(keys), mean, nodes), ("balance", nodes))


def check_seeds(res, rendezvous, keys):
    """several hashers over the same node names in one process - different seeds, falsy node objects - used alternately:
    each one follows the rule for its own seed and nodes (anything memoised per node name or per prefix across hashers,
    or a test for 'no winner yet' that a falsy node fails, shows here)"""
    nodes = ["a:1", "b:1", "c:1", "d:1"]
    seeds = [0, 1, 0xDEADBEEF, 0xFFFFFFFF]
    hs = [rendezvous.RendezvousHash(nodes=list(nodes), seed=sd) for sd in seeds]
    for rnd in range(2):
        for k in keys[:150]:
            for sd, h in (list(zip(seeds, hs)) if rnd == 0 else list(zip(seeds, hs))[::-1]):
                res.count("placements_vs_reference")
                got, want = h.get_node(k), refs.rendezvous_ref(nodes, k, seed=sd)
                if want is not NotImplemented and got != want:
                    res.violation("differs-from-published-rule:seeded-hashers-side-by-side",
                                  "RendezvousHash(seed=%#x) next to hashers with other seeds: get_node(%r) -> %r, rule -> %r" % (sd, k, got, want),
                                  ("seeds", k, sd))
                    return
    for falsy_nodes in ([0, 1, 2, 3], ["", "a", "b"], [0, "", "x:1"]):
        h = rendezvous.RendezvousHash()
        for nd in falsy_nodes:
            h.add_node(nd)
        for k in keys[:200]:
            res.count("placements_vs_reference")
            got, want = h.get_node(k), refs.rendezvous_ref(falsy_nodes, k)
            if want is not NotImplemented and (got != want or type(got) is not type(want)):
                res.violation("differs-from-published-rule:falsy-node", "nodes %r: get_node(%r) -> %r, rule -> %r" % (falsy_nodes, k, got, want),
                              ("falsy-nodes", tuple(falsy_nodes), k))
                return
    res.case(("seeds-and-falsy-nodes",))


def check_threads(res, rendezvous, tier):
    """Two threads look keys up on ONE hasher (what every thread of an application does through a shared HashClient): the
    answer for a key depends only on the key and the node set, so it must be the rule's winner whatever the other thread is
    doing.  Deterministic scheduler, line granularity inside RendezvousHash, every schedule with <= P preemptions; the
    hasher is fresh or has just had its node set changed (lazily built look-up state is then being rebuilt)."""
    from vk import sched as S
    S.install(S.codes_of(rendezvous.RendezvousHash), "line")
    P = 2 if tier == "quick" else 3
    setups = [("fresh", ["a:1", "b:1", "c:1"], None), ("after-add", ["a:1", "b:1"], ("add", "c:1")),
              ("after-remove", ["a:1", "b:1", "c:1", "d:1"], ("remove", "b:1")), ("nodes-arg", ["n2:1", "n1:1", "n3:1"], "ctor")]
    keysets = [(("k1", "k2"), ("k2", "k1")), (("alpha",), ("alpha",)), (("k3", "k3"), ("k4",)), ((b"bytes-key", "k5"), ("k5", b"bytes-key"))]
    for label, nodes, change in setups:
        for ka, kb in keysets:
            final = list(nodes)
            if isinstance(change, tuple):
                final = final + [change[1]] if change[0] == "add" else [x for x in final if x != change[1]]
            want = {k: refs.rendezvous_ref(final, k) for k in ka + kb}

            def make(sch):
                if change == "ctor":
                    h = rendezvous.RendezvousHash(nodes=list(nodes))
                else:
                    h = rendezvous.RendezvousHash()
                    for nd in nodes:
                        h.add_node(nd)
                    h.get_node("warm-up")
                    if change:
                        (h.add_node if change[0] == "add" else h.remove_node)(change[1])
                got = {0: [], 1: []}

                def prog(t, ks):
                    def run():
                        for k in ks:
                            got[t].append((k, h.get_node(k)))
                    return run

                def judge(ok, sch_):
                    for t in (0, 1):
                        for k, node in got[t]:
                            res.count("placements_under_concurrency")
                            if node != want[k]:
                                return ("two-threads:differs-from-published-rule",
                                        "thread %d: get_node(%r) -> %r, rule -> %r (nodes %r, %s; other thread looked up %r)"
                                        % (t, k, node, want[k], final, label, (ka, kb)[1 - t]))
                    return None
                return [prog(0, ka), prog(1, kb)], judge

            def on_run(sch):
                res.count("two_thread_schedules")
                sig = tuple((i, a, b) for i, a, b, pre in sch.switches)
                res.case(("threads", label, ka, kb, sig) if sch.switches else None)
            ex, exhaustive, bad = S.explore_threads(make, 2, P, 300 if tier == "quick" else 6000, on_run)
            if bad:
                res.violation(bad[0], bad[1] + " ; schedule %r" % (sorted(bad[2].items(), key=repr),), ("threads", label))
    # membership changes while another thread looks keys up (reconfigure_nodes / fail-over in one thread, traffic in another).
    # What the concurrent look-up itself returns is not judged (the node list is changing under it); judged is the state
    # afterwards: once both threads are done, every key is placed by the rule on the final node set - nothing computed for
    # the old set may survive the change
    for label, nodes, change in (("remove", ["a:1", "b:1", "c:1", "d:1"], ("remove", "c:1")), ("add", ["a:1", "b:1"], ("add", "c:1")),
                                 ("remove-then-add", ["a:1", "b:1", "c:1"], ("replace", "b:1", "e:1"))):
        keys = ["k%d" % i for i in range(6)]
        if change[0] == "remove":
            final = [x for x in nodes if x != change[1]]
        elif change[0] == "add":
            final = nodes + [change[1]]
        else:
            final = [x for x in nodes if x != change[1]] + [change[2]]
        moved = [k for k in keys if refs.rendezvous_ref(nodes, k) != refs.rendezvous_ref(final, k)]
        probe = (moved + keys)[:2]          # keys whose winner changes with the membership change come first

        def make2(sch, nodes=nodes, change=change, final=final, probe=probe, label=label):
            h = rendezvous.RendezvousHash()
            for nd in nodes:
                h.add_node(nd)
            for k in probe:
                h.get_node(k)

            def changer():
                if change[0] == "remove":
                    h.remove_node(change[1])
                elif change[0] == "add":
                    h.add_node(change[1])
                else:
                    h.remove_node(change[1])
                    h.add_node(change[2])

            def reader():
                for k in probe:
                    try:
                        h.get_node(k)
                    except Exception:
                        pass            # (the list is changing under the loop; not judged)

            def judge(ok, sch_):
                for k in probe + ["other-key"]:
                    res.count("placements_after_concurrent_membership_change")
                    got, want = h.get_node(k), refs.rendezvous_ref(final, k)
                    if got != want:
                        return ("two-threads:placement-survives-membership-change",
                                "after %s of %r finished while another thread was looking keys up, get_node(%r) -> %r; the rule on "
                                "the final node set %r gives %r" % (label, change[1:], k, got, final, want))
                return None
            return [changer, reader], judge
        ex, exhaustive, bad = S.explore_threads(make2, 2, P, 400 if tier == "quick" else 6000, on_run=lambda sch: res.count("two_thread_schedules"))
        if bad:
            res.violation(bad[0], bad[1] + " ; schedule %r" % (sorted(bad[2].items(), key=repr),), ("threads", label))
        res.case(("threads-membership", label))


def shard(tier, seed, idx, n):
    res = common.Result()
    from pymemcache.client import rendezvous
    rng = random.Random(seed * 1009 + 11)
    nkeys = 2000 if tier == "quick" else 20000
    keys = corpus(nkeys, rng)
    work = 0
    for si, nodes in enumerate(NODESETS):
        for hname in HASHES:
            work += 1
            if work % n != idx:
                continue
            ks = keys if hname == "murmur3" and len(nodes) <= 5 else keys[:400]
            if len(nodes) > 4:
                ks = ks[:300 if tier == "quick" else 1500]
            check_set(res, rendezvous, nodes, ks, hname, tier, random.Random(seed + work), "set%d" % si)
    # add/remove histories
    uni = ["a:1", "b:1", "c:1", "d:1"] if tier == "quick" else ["a:1", "b:1", "c:1", "d:1", "e:1"]
    hk = keys[:60]
    for hi, hname in enumerate(HASHES):
        work += 1
        if work % n != idx:
            continue
        if tier == "quick":
            check_histories(res, rendezvous, uni, hk, hname, 4, rng, True, 0)
            check_histories(res, rendezvous, uni, hk, hname, 8, random.Random(seed + hi), False, 300)
        else:
            check_histories(res, rendezvous, uni, hk[:30], hname, 5, rng, True, 0)
            check_histories(res, rendezvous, uni, hk, hname, 10, random.Random(seed + hi), False, 5000)
    work += 1
    if work % n == idx:
        check_processes(res, [k for k in keys[:400]], 8)
    work += 1
    if work % n == idx:
        check_hashclient(res, tier, random.Random(seed + 5))
    work += 1
    if work % n == idx:
        big = corpus(4000 if tier == "quick" else 50000, random.Random(seed + 6))
        for nodes in NODESETS[1:]:
            check_balance(res, rendezvous, nodes, big)
            res.case(("balance", tuple(nodes)))
    work += 1
    if work % n == idx:
        check_threads(res, rendezvous, tier)
    work += 1
    if work % n == idx:
        check_seeds(res, rendezvous, [k for k in keys[:400]])
    res.extra["exhaustive"] = True
    res.extra["exhaustive_part"] = "all permutations of node sets up to %d nodes; all add/remove histories up to length %d" % (
        (5, 4) if tier == "quick" else (6, 5))
    return res


def replay(case):
    res = common.Result()
    from pymemcache.client import rendezvous
    print("replay case:", case)
    if case[0] == "hist":
        _, seq, hname, k = case
        check_histories(res, rendezvous, sorted({u for _, u in seq}), [k], hname, len(seq), random.Random(0), True, 0)
    elif case[0].startswith("set"):
        label, nodes, hname, k = case
        check_set(res, rendezvous, list(nodes), [k], hname, "quick", random.Random(0), label)
    elif case[0].startswith("hc"):
        check_hashclient(res, "quick", random.Random(5))
    elif case[0] == "threads":
        check_threads(res, rendezvous, "quick")
    elif case[0] == "digests":
        check_processes(res, corpus(400, random.Random(11)), 8)
    res.case(case)
    for c in REQUIRED_COUNTERS:
        res.count(c)
    return res
