"""C05 - return values report the server's actual outcome over any history.

Monitor: an API-level reference model (AbstractCache: a dict with expiry and cas versions,
written separately from the wire-level RefServer) is stepped in lockstep with the real
client talking to RefServer over FakeNet on a shared virtual clock; every return value /
exception class is compared; cas tokens are compared through a bijection real-token <->
model-version maintained by the monitor; a final gets_many sweep compares the end states."""
import itertools
import random

from vk import common, driver
from vk.model import AbstractCache, ClientErrorExpected

PROPERTY = "C05"
LEVEL = "exploration"
RULE = ("bounded-exhaustive: all histories of length <=3 (thorough <=4) over a reduced alphabet of ~45 op instances (2 keys; stores, "
        "conditional stores, cas with fresh/stale/bogus tokens, fetches with and without tokens, touch/gat, delete, incr/decr, "
        "multi-key ops, flush, expiring stores, clock advances below/at/above the ttl, noreply variants); seeded random histories of "
        "length 10..60 over 3 keys, more values, expiries, prefix/default_noreply configs and PooledClient/HashClient(1). "
        "Non-trivial = the history contains an outcome that is not the op's fresh-store/miss default; distinct by the sequence of "
        "(op, key, outcome class).")
ASSUMPTIONS = [
    "server semantics shared by RefServer and AbstractCache: relative expiry <=30 days else absolute, negative = already expired, "
    "item dead when exptime <= now; incr wraps at 2^64, decr floors at 0, non-numeric -> CLIENT_ERROR; touch/gat do not change the cas "
    "unique; append/prepend keep flags and expiry; flush_all(delay) takes effect at now+delay; decr does not pad with spaces",
    "values are bytes (no serde); str/int values are C04's subject",
]
MIN_NONTRIVIAL = {"quick": 20000, "thorough": 500000}
REQUIRED_COUNTERS = ["returns_compared", "final_state_sweeps", "cas_tokens_mapped", "hits", "conditional_failures", "expiries_observed"]
SHARDS = {"quick": 16, "thorough": 16}
TIMEOUT = {"quick": 900, "thorough": 7200}

D, CD = "<default>", "<cas-default>"


def alphabet():
    A = []
    for k in ("a", "b"):
        A += [("set", k, b"1"), ("get", k), ("gets", k), ("delete", k)]
    A += [("set", "a", b"x"), ("set", "a", b"5", 2), ("set", "a", b"1", -1), ("add", "a", b"x"), ("add", "b", b"7"),
          ("replace", "a", b"9"), ("append", "a", b"3"), ("prepend", "a", b"2"),
          ("cas", "a", b"c", "last"), ("cas", "a", b"c", "first"), ("cas", "a", b"c", "bogus"), ("cas", "b", b"c", "last"),
          ("gat", "a", 2), ("gats", "a", 2), ("touch", "a", 2), ("touch", "a", -1), ("touch", "b", 0),
          ("incr", "a", 1), ("decr", "a", 5), ("incr", "b", 18446744073709551615), ("incr", "a", 7, "nr"),
          ("get_many", ("a", "b")), ("gets_many", ("b", "a")), ("set_many", (("a", b"1"), ("b", b"x"))),
          ("delete_many", ("a", "b")), ("flush_all",), ("flush_all", 2),
          ("advance", 1), ("advance", 2), ("advance", 3),
          ("set", "a", b"n", 0, "nr"), ("add", "a", b"n", 0, "nr"), ("delete", "a", "nr"), ("touch", "a", 2, "nr"),
          ("cas", "a", b"n", "last", "nr"), ("set_many", (("a", b"2"),), "nr"), ("replace", "b", b"r", 0, "nr")]
    return A


def outcome_class(op, r):
    if isinstance(r, tuple) and r and r[0] == "exc":
        return r[1]
    v = r[1]
    if op in ("get", "gat"):
        return "miss" if v == D else "hit"
    if op in ("gets", "gats"):
        return "miss" if v == (D, CD) or v == (None, None) else "hit"
    if op in ("get_many", "gets_many"):
        return "n%d" % len(v) if isinstance(v, dict) else repr(v)
    return repr(v)


def run_history(res, stack, cfg, hist, label):
    """hist: list of op tuples.  Executes real and model in lockstep; reports the first divergence."""
    w = driver.World({"stack": stack, "servers": [("mc1", 11211)], "cfg": cfg, "prefill": {}})
    m = AbstractCache(w.clock)
    dn = cfg.get("default_noreply", True)
    pooled = stack != "client"
    tokens = {}            # key -> list of (real token, model version) in order obtained
    tok2ver, ver2tok = {}, {}
    sig = []
    nontrivial = False
    case = (stack, sorted(cfg.items()), hist)
    try:
        for i, op in enumerate(hist):
            name = op[0]
            if name == "advance":
                w.clock.advance(op[1])
                continue
            nr_flag = op[-1] == "nr"
            args = op[1:-1] if nr_flag else op[1:]
            # ---- noreply actually in force
            if name in ("cas", "incr", "decr"):
                nr = True if nr_flag else False
                # these three wait for the reply unless told otherwise, whatever default_noreply says:
                # half of the time rely on that documented default instead of passing noreply=False
                kw = {"noreply": nr} if (nr or (i + len(hist)) % 2 == 0) else {}
            elif name in ("set", "add", "replace", "append", "prepend", "touch", "delete", "delete_many", "set_many", "flush_all"):
                if nr_flag:
                    nr, kw = True, {"noreply": True}
                elif (i + len(hist)) % 2 == 0:
                    nr, kw = False, {"noreply": False}
                else:
                    nr, kw = dn, {}            # rely on default_noreply
            else:
                nr, kw = False, {}
            # ---- model prediction (effect always applied)
            exp = None
            try:
                if name in ("set", "add", "replace"):
                    k, v = args[0], args[1]
                    e = args[2] if len(args) > 2 else 0
                    r = getattr(m, name)(k, v, e)
                    exp = ("ret", True if nr else r)
                    call = (name, (k, v, e), kw)
                elif name == "setbig":
                    # a value above the 1 MiB item limit on a key that holds nothing: the server refuses it with SERVER_ERROR
                    exp = ("exc", "MemcacheServerError")
                    call = ("set", (args[0], b"B" * ((1 << 20) + 1)), {"noreply": False})
                elif name in ("append", "prepend"):
                    r = getattr(m, name)(args[0], args[1])
                    exp = ("ret", True if nr else r)
                    call = (name, (args[0], args[1]), kw)
                elif name == "cas":
                    k, v, which = args
                    lst = tokens.get(k, [])
                    if which == "bogus" or not lst:
                        tok, ver = b"987654321", None
                    else:
                        tok, ver = lst[-1] if which == "last" else lst[0]
                    r = m.cas(k, v, ver)
                    exp = ("ret", True if nr else r)
                    call = ("cas", (k, v, tok), kw)
                elif name == "get":
                    r = m.get(args[0])
                    exp = ("ret", D if r is None else r)
                    call = ("get", (args[0], D), {})
                elif name == "scoped_copy_get":
                    # a short-lived shallow copy of the client (same connection) reads the key and goes away; the original
                    # carries on.  The outcome judged is the copy's get; the calls after it judge the original
                    r = m.get(args[0])
                    exp = ("ret", D if r is None else r)
                    call = ("get", (args[0], D), {})
                    if stack == "client":
                        import copy as _copy
                        import gc as _gc
                        orig = w.obj
                        w.obj = _copy.copy(orig)
                        try:
                            out_copy = w.call(i, call)
                        finally:
                            w.obj = orig
                        _gc.collect()
                        res.count("scoped_copies")
                        got = out_copy if out_copy[0] == "ret" else ("exc", out_copy[1])
                        if got != exp:
                            res.violation("return-differs-from-model:%s:get:scoped-copy" % stack, "a shallow copy's get(%r) returned %r, model says %r"
                                          % (args[0], got, exp), case)
                            return
                elif name == "gat":
                    r = m.gat(args[0], args[1])
                    exp = ("ret", D if r is None else r)
                    call = ("gat", (args[0],), {"expire": args[1], "default": D})
                elif name in ("gets", "gats"):
                    r = m.gets(args[0]) if name == "gets" else m.gats(args[0], args[1])
                    exp = ("gets", r)
                    if pooled or stack.startswith("hash"):
                        call = (name, (args[0],), {} if name == "gets" else {"expire": args[1]})
                    else:
                        call = (name, (args[0],), {"default": D, "cas_default": CD} if name == "gets"
                                else {"expire": args[1], "default": D, "cas_default": CD})
                elif name == "touch":
                    r = m.touch(args[0], args[1])
                    exp = ("ret", True if nr else r)
                    call = ("touch", (args[0], args[1]), kw)
                elif name == "delete":
                    r = m.delete(args[0])
                    exp = ("ret", True if nr else r)
                    call = ("delete", (args[0],), kw)
                elif name in ("incr", "decr"):
                    try:
                        r = getattr(m, name)(args[0], args[1])
                        exp = ("ret", None if nr else r)
                    except ClientErrorExpected:
                        exp = ("ret", None) if nr else ("exc", "MemcacheClientError")
                    call = (name, (args[0], args[1]), kw)
                elif name in ("get_many", "gets_many"):
                    keys = list(args[0])
                    if name == "get_many":
                        exp = ("ret", {k: m.get(k) for k in keys if m.get(k) is not None})
                    else:
                        exp = ("gets_many", {k: m.gets(k) for k in keys if m.gets(k) is not None})
                    call = (name, (keys,), {})
                elif name == "set_many":
                    for k, v in args[0]:
                        m.set(k, v, 0)
                    exp = ("ret", [])
                    call = ("set_many", (dict(args[0]),), kw)
                elif name == "delete_many":
                    for k in args[0]:
                        m.delete(k)
                    exp = ("ret", True)
                    call = ("delete_many", (list(args[0]),), kw)
                elif name == "flush_all":
                    delay = args[0] if args else 0
                    m.flush_all(delay)
                    exp = ("ret", None if stack.startswith("hash") else True)   # HashClient.flush_all is documented -> None
                    call = ("flush_all", (delay,), kw)
                else:
                    raise ValueError(name)
            except ClientErrorExpected:
                exp = ("exc", "MemcacheClientError")
            out = w.call(i, call)
            res.count("returns_compared")
            got = out if out[0] == "ret" else ("exc", out[1])
            ok = True
            if exp[0] == "gets":
                # (value, token) with the token <-> version bijection
                if exp[1] is None:
                    miss = (None, None) if (pooled or stack.startswith("hash")) else (D, CD)
                    if stack.startswith("hash") and name == "gats":
                        miss = (None, None)
                    ok = got == ("ret", miss)
                else:
                    val, ver = exp[1]
                    ok = got[0] == "ret" and isinstance(got[1], tuple) and len(got[1]) == 2 and got[1][0] == val \
                        and isinstance(got[1][1], bytes)
                    if ok:
                        ok = bind(res, tok2ver, ver2tok, args[0], got[1][1], ver, case)
                        tokens.setdefault(args[0], []).append((got[1][1], ver))
            elif exp[0] == "gets_many":
                ok = got[0] == "ret" and isinstance(got[1], dict) and set(got[1]) == set(exp[1])
                if ok:
                    for k, (val, ver) in exp[1].items():
                        gv = got[1][k]
                        if not (isinstance(gv, tuple) and len(gv) == 2 and gv[0] == val and isinstance(gv[1], bytes)):
                            ok = False
                            break
                        ok = ok and bind(res, tok2ver, ver2tok, k, gv[1], ver, case)
                        tokens.setdefault(k, []).append((gv[1], ver))
            else:
                ok = got == exp and (got[0] != "ret" or type(got[1]) is type(exp[1]))
            cls = outcome_class(name, got)
            sig.append((name, args[0] if args and isinstance(args[0], str) else None, cls))
            if cls in ("hit", "False", "None", "MemcacheClientError") or cls.startswith("n1") or cls.startswith("n2") \
                    or (name in ("incr", "decr") and cls.isdigit()):
                nontrivial = True
            if cls == "hit" or cls.startswith("n1") or cls.startswith("n2"):
                res.count("hits")
            if cls in ("False", "None") and name in ("add", "replace", "append", "prepend", "cas", "touch", "delete"):
                res.count("conditional_failures")
            if not ok:
                res.violation("return-differs-from-model:%s:%s:%s" % (stack, name, "noreply" if nr else "reply"),
                              "%s step %d %s%r %r: client returned %r, model says %r ; history %r"
                              % (label, i, call[0], _sh(call[1]), call[2], _sh(got), _sh(exp), _shh(hist)), case)
                return
        # ---- final sweep
        snap = m.snapshot()
        keys = sorted({k for op in hist for k in _keys(op)} | set(snap))
        out = w.call(len(hist), ("get_many", (keys,), {}))
        res.count("final_state_sweeps")
        if out != ("ret", snap):
            res.violation("final-state-differs:%s" % stack, "after %r: get_many -> %r, model holds %r" % (_shh(hist), _sh(out), _sh(snap)), case)
        # did the clock expire something?
        if any(op[0] == "advance" for op in hist) and any(len(op) > 3 and isinstance(op[3], int) and op[3] != 0 for op in hist if op[0] == "set"):
            res.count("expiries_observed")
        for srv in w.servers.values():
            if srv.malformed:
                res.violation("malformed-on-wire:%s" % stack, repr(srv.malformed[0])[:100], case)
    finally:
        w.close()
    res.case(tuple(sig) if nontrivial else None,
             {"stack": stack, "cfg": repr(cfg), "history": [repr(o) for o in hist][:12], "outcomes": [s[2] for s in sig][:12]}
             if res.evaluations % 9973 == 0 else None)


def bind(res, tok2ver, ver2tok, key, tok, ver, case):
    res.count("cas_tokens_mapped")
    a = tok2ver.setdefault((key, tok), ver)
    b = ver2tok.setdefault((key, ver), tok)
    if a != ver or b != tok:
        res.violation("cas-token-not-a-version-bijection",
                      "key %r: token %r seen for model versions %r and %r / version %r seen as tokens %r and %r"
                      % (key, tok, a, ver, ver, b, tok), case)
        return False
    return True


def _keys(op):
    if op[0] in ("advance", "flush_all"):
        return []
    if op[0] in ("get_many", "gets_many", "delete_many"):
        return list(op[1])
    if op[0] == "set_many":
        return [k for k, _ in op[1]]
    return [op[1]]


def _sh(x):
    r = repr(x)
    return r if len(r) < 200 else r[:190] + "..."


def _shh(h):
    return [o for o in h][:14]


def random_history(rng):
    keys = ["a", "b", "c"]
    vals = [b"1", b"x", b"42", b"18446744073709551615", b"", b"007", b"val\r\nue", b"9" * 21]
    n = rng.randrange(10, 60)
    h = []
    for _ in range(n):
        k = rng.choice(keys)
        c = rng.randrange(24)
        nr = ("nr",) if rng.random() < 0.2 else ()
        e = rng.choice([0, 0, 0, 2, 5, -1, 2592000, 2592001, 1_000_050])
        if c == 0:
            h.append(("set", k, rng.choice(vals), e) + nr)
        elif c == 1:
            h.append(("add", k, rng.choice(vals), e) + nr)
        elif c == 2:
            h.append(("replace", k, rng.choice(vals), e) + nr)
        elif c == 3:
            h.append((rng.choice(("append", "prepend")), k, rng.choice(vals)) + nr)
        elif c == 4:
            h.append(("cas", k, rng.choice(vals), rng.choice(("last", "last", "first", "bogus"))) + nr)
        elif c in (5, 6):
            h.append(("get", k) if rng.random() < 0.85 else ("scoped_copy_get", k))
        elif c in (7, 8):
            h.append(("gets", k))
        elif c == 9:
            h.append((rng.choice(("gat", "gats")), k, rng.choice([0, 2, 5, -1])))
        elif c == 10:
            h.append(("touch", k, rng.choice([0, 2, 5, -1])) + nr)
        elif c == 11:
            h.append(("delete", k) + nr)
        elif c in (12, 13):
            h.append((rng.choice(("incr", "decr")), k, rng.choice([0, 1, 5, 100, 2 ** 64 - 1])) + nr)
        elif c == 14:
            h.append(("get_many", tuple(rng.sample(keys, rng.randrange(1, 4)))))
        elif c == 15:
            h.append(("gets_many", tuple(rng.sample(keys, rng.randrange(1, 4)))))
        elif c == 16:
            ks = rng.sample(keys, rng.randrange(1, 4))
            h.append(("set_many", tuple((x, rng.choice(vals)) for x in ks)) + nr)
        elif c == 17:
            h.append(("delete_many", tuple(rng.sample(keys, rng.randrange(1, 4)))) + nr)
        elif c == 19 and rng.random() < 0.15:
            h.append(("setbig", "fresh-%d" % len(h)))
        elif c == 18 and rng.random() < 0.3:
            h.append(("flush_all",) + ((rng.choice([0, 3]),) if rng.random() < 0.5 else ()))
        else:
            h.append(("advance", rng.choice([1, 1, 2, 3, 4, 5, 6, 51, 2592000])))
    return h


def wide_history(rng, nkeys):
    """the same contract with hundreds of keys in one call (a client that pipelines or slices large batches)"""
    keys = ["w%03d" % i for i in range(nkeys)]
    vals = [b"1", b"x", b"42", b"", b"val\r\nue"]
    h = []
    nr = ("nr",) if rng.random() < 0.5 else ()
    h.append(("set_many", tuple((k, vals[i % len(vals)]) for i, k in enumerate(keys))) + nr)
    h.append(("get_many", tuple(keys)))
    h.append(("gets_many", tuple(rng.sample(keys, nkeys - rng.randrange(0, 3)))))
    some = rng.sample(keys, rng.choice((nkeys // 2, nkeys - 1, 129 if nkeys > 129 else 1)))
    h.append(("delete_many", tuple(some)) + (("nr",) if rng.random() < 0.5 else ()))
    h.append(("get_many", tuple(keys)))
    h.append(("set_many", tuple((k, b"second") for k in some[: rng.randrange(1, len(some) + 1)])) + (("nr",) if rng.random() < 0.5 else ()))
    h.append(("gets_many", tuple(keys)))
    return h


def set_many_failures(res):
    """set_many's failed-key list = exactly the keys the server did not store, in the caller's order"""
    keys = ["k1", "k2", "k3", "k4"]
    for stack in ("client", "pooled", "hash"):
        for n in range(1, 5):
            for refused in itertools.chain.from_iterable(itertools.combinations(keys[:n], r) for r in range(0, n + 1)):
                w = driver.World({"stack": stack, "servers": [("mc1", 11211)], "cfg": {}, "prefill": {}})
                srv = list(w.servers.values())[0]
                srv.refuse_set = {k.encode() for k in refused}
                out = w.call(0, ("set_many", ({k: b"v" for k in keys[:n]},), {"noreply": False}))
                w.close()
                res.count("returns_compared")
                res.count("set_many_failure_cases")
                case = ("set_many_failures", stack, n, refused)
                if out != ("ret", list(refused)):
                    res.violation("set_many-failed-list-wrong:%s" % stack, "server refused %r of %r; set_many returned %r"
                                  % (refused, keys[:n], out), case)
                for k in keys[:n]:
                    w2 = driver.World({"stack": stack, "servers": [("mc1", 11211)], "cfg": {}, "prefill": {}})
                    list(w2.servers.values())[0].refuse_set = {x.encode() for x in refused}
                    o2 = w2.call(0, ("set", (k, b"v"), {"noreply": False}))
                    w2.close()
                    if o2 != ("ret", k not in refused):
                        res.violation("set-result-wrong:%s" % stack, "set(%r) with refused=%r returned %r" % (k, refused, o2), case)
                res.case(case if refused else None)


def shard(tier, seed, idx, n):
    res = common.Result()
    if idx == 0:
        set_many_failures(res)
    A = alphabet()
    maxlen = 3 if tier == "quick" else 4
    work = 0
    cfgs = [{"default_noreply": True}, {"default_noreply": False}]
    for L in range(1, maxlen + 1):
        for hist in itertools.product(A, repeat=L):
            work += 1
            if work % n != idx:
                continue
            cfg = cfgs[(work // n) % 2]
            run_history(res, "client", cfg, list(hist), "exhaustive")
    # the wrapper classes get the exhaustive treatment for histories of length <= 2 (3 in thorough)
    for stack in ("pooled", "hash", "hashpooled"):
        for L in range(1, (2 if tier == "quick" else 3) + 1):
            for hist in itertools.product(A, repeat=L):
                work += 1
                if work % n != idx:
                    continue
                run_history(res, stack, cfgs[(work // n) % 2], list(hist), "exhaustive-" + stack)
    rng = random.Random(seed * 2654435761 + idx)
    count = 150 if tier == "quick" else 6000
    stacks = ["client", "client", "pooled", "hash", "hashpooled"]
    for i in range(count):
        cfg = {"default_noreply": rng.random() < 0.5}
        if rng.random() < 0.4:
            cfg["key_prefix"] = rng.choice([b"p:", b"ns-"])
        run_history(res, stacks[i % len(stacks)], cfg, random_history(rng), "random")
        res.count("random_histories")
    # multi-key calls with nothing in them: the documented empty answers ({} / [] / True), before and after other traffic
    for stack in ("client", "pooled", "hash", "hashpooled"):
        for dn in (True, False):
            work += 1
            if work % n != idx:
                continue
            for empty in (("get_many", ()), ("gets_many", ()), ("delete_many", ()), ("set_many", ()), ("delete_many", (), "nr"), ("set_many", (), "nr")):
                run_history(res, stack, {"default_noreply": dn}, [empty], "empty")
                run_history(res, stack, {"default_noreply": dn}, [("set", "a", b"1", 0), empty, ("get", "a"), empty], "empty")
                res.count("empty_multi_key_calls", 3)
    for i, nkeys in enumerate((127, 128, 129, 130, 255, 256, 257, 300, 513, 1025)):
        work += 1
        if work % n != idx:
            continue
        for stack in (("client", "pooled", "hash") if tier == "quick" else ("client", "pooled", "hash", "hashpooled")):
            run_history(res, stack, {"default_noreply": bool(i % 2)}, wide_history(random.Random(seed * 977 + work), nkeys), "wide")
            res.count("wide_histories")
    res.extra["exhaustive"] = True
    res.extra["exhaustive_part"] = "all histories of length <=%d over %d op instances (Client)" % (maxlen, len(A))
    return res


def replay(case):
    res = common.Result()
    if case[0] == "set_many_failures":
        set_many_failures(res)
        res.nontrivial.update({1, 2})
        for c in REQUIRED_COUNTERS:
            res.count(c)
        return res
    stack, cfg, hist = case
    run_history(res, stack, dict(cfg), list(hist), "replay")
    for c in REQUIRED_COUNTERS:
        res.count(c)
    res.nontrivial.update({1, 2})
    return res
