"""C08 - pooled connections are never shared between threads.

Monitor: a deterministic scheduler (vk/sched.py): real threads, one runnable at a time,
scheduling points at every LINE (thorough: INSTRUCTION) event inside the pool and
PooledClient code objects (sys.monitoring, local events), at every pool-lock operation
(lock_generator= seam) and at every socket call.  Schedules are enumerated exhaustively
within a preemption bound by prefix replay.  Monitors evaluated by the scheduler:
ownership ledger at the pool's public boundary, exclusive use of inner clients, pool
invariants wherever no pool lock is held, no internal error from pool methods, no deadlock,
conservation of objects and sockets at quiescence."""
import itertools
import random
import threading

from vk import common, sched as S
from vk.fakenet import FakeNet
from vk.refserver import RefServer, VClock, Item

PROPERTY = "C08"
LEVEL = "exploration"
RULE = ("programs: 2 threads x 1..2 operations and 3 threads x 1 operation over (i) ObjectPool alone {get+release, get+destroy, "
        "get_and_release ok / raising with destroy_on_fail on/off, clear} with max_size {1,2,None}, idle_timeout 0/>0, and (ii) "
        "PooledClient over FakeNet {set, get, op failing with a reset at recv, op with an illegal key, quit, close()}; every "
        "schedule with <= P preemptions (P=2 for 2 threads, 1 for 3 threads; thorough: P=3/2 at LINE and P=2 at INSTRUCTION "
        "granularity) is executed, plus every choice at block/finish points. Non-trivial = >=1 preemption inside pool / "
        "PooledClient code or at a socket call; distinct by (program, switch trace).")
ASSUMPTIONS = [
    "scheduling points are LINE/INSTRUCTION events of pool.py and PooledClient code, pool-lock operations and socket calls; non-atomicity inside one bytecode (deque methods are atomic under the GIL) and free-threaded builds are out of scope",
    "exceptions an *operation* raises because another thread's close() shut its connection are the caller's doing; only exceptions out of the pool's own methods count as internal errors",
    "exhaustion (RuntimeError 'Too many objects') is legitimate when, at the moment the raising thread held the pool lock, max_size objects were checked out and not yet released by other threads",
]
MIN_NONTRIVIAL = {"quick": 5000, "thorough": 100000}
REQUIRED_COUNTERS = ["schedules_executed", "preemptive_switches_inside_pool_code", "invariant_evaluations", "lock_handoffs",
                     "quiescence_checks"]
SHARDS = {"quick": 16, "thorough": 16}
TIMEOUT = {"quick": 1500, "thorough": 10800}


class Boom(Exception):
    pass


class Obj:
    _n = 0

    def __init__(self):
        Obj._n += 1
        self.id = Obj._n

    def __repr__(self):
        return "Obj%d" % self.id


class _ForkedChild:
    """After os.fork() the child has the parent's pool object with another pid.  Modelled by letting os.getpid() answer with
    a new value once the (fresh, never used) pool exists: a pool that 'starts over' in a child must do so safely when the
    child's threads arrive together."""

    def __init__(self, on):
        self.on = on

    def __enter__(self):
        import os
        self._real = os.getpid
        if self.on:
            pid = self._real() + 1
            os.getpid = lambda: pid
        return self

    def __exit__(self, *a):
        import os
        os.getpid = self._real


def _strip_fork_marker(programs):
    forked = any("FORKED" in p for p in programs)
    return forked, tuple(tuple(o for o in p if o != "FORKED") for p in programs)


def pool_codes():
    import pymemcache.pool as pool
    import pymemcache.client.base as base
    codes = []
    P = pool.ObjectPool
    for name in ("get", "release", "destroy", "clear", "get_and_release"):
        fn = getattr(P, name)
        fn = getattr(fn, "__wrapped__", fn)          # the generator function behind @contextmanager
        if hasattr(fn, "__code__"):
            codes.append(fn.__code__)
    # helper functions a refactor may add to the pool module are scheduling points too
    for name, fn in vars(P).items():
        f = getattr(fn, "__wrapped__", fn)
        if callable(f) and hasattr(f, "__code__") and f.__code__ not in codes and not name.startswith("__") \
                and name not in ("used", "free"):
            codes.append(f.__code__)
    # properties other than the two the harness itself reads (a lazily created lock, a computed size ...)
    for name, fn in vars(P).items():
        if isinstance(fn, property) and name not in ("used", "free"):
            for acc in (fn.fget, fn.fset):
                if acc is not None and hasattr(acc, "__code__") and acc.__code__ not in codes:
                    codes.append(acc.__code__)
    for name, fn in vars(base.PooledClient).items():
        if callable(fn) and hasattr(fn, "__code__") and not name.startswith("__init__"):
            codes.append(fn.__code__)
    return codes


class Monitor:
    """Boundary wrappers + invariants; all state is touched by exactly one running thread at a time."""

    def __init__(self, sch, pool, max_size):
        self.sch, self.pool, self.max_size = sch, pool, max_size
        self.viol = []
        self.held = {}            # obj -> thread, from get() return to release()/destroy() entry
        self.unreleased = {}      # obj -> thread, until release()/destroy() returns (or clear() dropped it)
        self.created = []
        self.removed = {}         # obj -> times after_remove ran
        self.unreleased_at_acquire = {}
        self.release_started = {}
        self.creator_fails_for = set()
        self.in_get = set()       # threads between get() entry and return
        self.got_lock = set()     # ... that already held the pool lock once (so may already own an object)
        self.inv_evals = 0
        self.expected_exhaustions = 0
        sch.invariant_hook = self.at_point
        sch._lock_acq_hook = self.on_acquire
        self._wrap()

    def v(self, key, msg):
        self.viol.append((key, msg))

    def on_acquire(self, me, lock):
        # objects other threads have checked out and not yet finished releasing, as far as the boundary can know:
        # recorded ones + threads that are inside get() and already passed through the pool lock
        self.unreleased_at_acquire[me] = (sum(1 for o, t in self.unreleased.items() if t != me)
                                          + sum(1 for t in self.got_lock if t != me))
        if me in self.in_get:
            self.got_lock.add(me)

    def _wrap(self):
        pool = self.pool
        og, orl, od, oc = pool.get, pool.release, pool.destroy, pool.clear
        mon = self

        def get():
            me = mon.sch.me()
            mon.in_get.add(me)
            try:
                try:
                    obj = og()
                finally:
                    mon.in_get.discard(me)
                    mon.got_lock.discard(me)
            except RuntimeError as e:
                if "Too many objects" in str(e) and mon.max_size and mon.unreleased_at_acquire.get(me, 0) >= mon.max_size:
                    mon.expected_exhaustions += 1
                    raise
                mon.v("pool-get-internal-error", "get() raised %r while other threads hold %d unreleased object(s) (max_size %r)"
                      % (e, mon.unreleased_at_acquire.get(me, 0), mon.max_size))
                raise
            except S.SchedAbort:
                raise
            except CreatorBoom:
                raise               # the object factory's own failure, passed on to the caller: not the pool's error
            except BaseException as e:
                mon.v("pool-get-internal-error:%s" % type(e).__name__, "get() raised %r" % (e,))
                raise
            if obj in mon.held and mon.held[obj] != me:
                mon.v("connection-shared-between-threads", "get() handed %r to thread %r while thread %r still holds it"
                      % (obj, me, mon.held[obj]))
            mon.held[obj] = me
            mon.unreleased[obj] = me
            return obj

        def _end(fn, name):
            def f(obj, *a, **k):
                me = mon.sch.me()
                if mon.held.get(obj) == me:
                    del mon.held[obj]
                try:
                    return fn(obj, *a, **k)
                except S.SchedAbort:
                    raise
                except BaseException as e:
                    mon.v("pool-%s-internal-error:%s" % (name, type(e).__name__), "%s(%r) raised %r" % (name, obj, e))
                    raise
                finally:
                    if mon.unreleased.get(obj) == me:
                        del mon.unreleased[obj]
            return f

        def clear():
            try:
                return oc()
            except S.SchedAbort:
                raise
            except BaseException as e:
                mon.v("pool-clear-internal-error:%s" % type(e).__name__, "clear() raised %r" % (e,))
                raise

        pool.get, pool.release, pool.destroy, pool.clear = get, _end(orl, "release"), _end(od, "destroy"), clear

    def at_point(self, sch, me, tag):
        # invariants are observable to other threads only where no pool lock is held
        if any(l.owner is not None for l in sch.locks):
            return
        self.inv_evals += 1
        used, free = self.pool.used, self.pool.free
        if self.max_size and len(used) + len(free) > self.max_size:
            self.v("pool-holds-more-than-max_size", "used %r + free %r > max_size %d at %r" % (used, free, self.max_size, tag))
        allo = list(used) + list(free)
        if len(set(map(id, allo))) != len(allo):
            self.v("object-listed-twice", "used %r free %r at %r" % (used, free, tag))


# ---------------------------------------------------------------------------------------------
# workload (i): ObjectPool alone

class CreatorBoom(Exception):
    pass


class _NoMon:
    viol = ()
    inv_evals = 0
    expected_exhaustions = 0


POOL_OPS = ["get_release", "get_destroy", "gar_ok", "gar_raise_destroy", "gar_raise_release", "clear"]


def make_pool_program(pool, mon, ops, log, clock=None):
    def prog():
        for op in ops:
            try:
                if op == "slow_use":
                    # a call that takes 10 virtual seconds (used by C09's race section; never part of C08's own programs)
                    o = pool.get()
                    clock.advance(10)
                    mon.release_started[o] = clock.now()
                    pool.release(o)
                elif op == "get_release":
                    o = pool.get()
                    pool.release(o)
                elif op == "get_destroy":
                    o = pool.get()
                    pool.destroy(o)
                elif op == "gar_ok":
                    with pool.get_and_release(destroy_on_fail=True) as o:
                        log.append(("use", o))
                elif op == "gar_raise_destroy":
                    try:
                        with pool.get_and_release(destroy_on_fail=True) as o:
                            raise Boom()
                    except Boom:
                        pass
                elif op == "gar_raise_release":
                    try:
                        with pool.get_and_release(destroy_on_fail=False) as o:
                            raise Boom()
                    except Boom:
                        pass
                elif op == "clear":
                    pool.clear()
                elif op == "adv_expire":
                    clock.advance((pool.idle_timeout or 0) + 1)      # everything idle in the pool is now past the idle timeout
                elif op == "get_creator_fails":
                    # the object factory fails (what a failing client_class constructor does): nothing may be lost on the way
                    me_ = mon.sch.me()
                    mon.creator_fails_for.add(me_)          # the factory fails for this thread's checkout only
                    try:
                        o = pool.get()
                    except CreatorBoom:
                        pass
                    else:
                        pool.release(o)
                    finally:
                        mon.creator_fails_for.discard(me_)
            except RuntimeError as e:
                if "Too many objects" not in str(e):
                    raise
                log.append(("exhausted", op))
    return prog


def run_pool_case(case, forced, mode):
    """case = ("pool", programs(tuple of op tuples), max_size, idle_timeout)"""
    import pymemcache.pool as poolmod
    _, programs, max_size, idle = case
    forked, programs = _strip_fork_marker(programs)
    sch = S.Sched(len(programs), forced)
    clock = VClock()

    restore_clock = clock.patch_module(poolmod)
    removed = {}
    created = []

    def creator():
        if sch.me() in mon.creator_fails_for:
            raise CreatorBoom()
        o = Obj()
        created.append(o)
        return o

    early = []

    def after_remove(o):
        removed[o] = removed.get(o, 0) + 1
        me = sch.me()
        # called with the pool lock held = the idle-expiry path of get(): legitimate only if the object has been idle
        # (since its release began) for longer than idle_timeout
        if idle and any(l.owner == me for l in sch.locks):
            started = mon.release_started.get(o)
            if started is not None and clock.now() - started <= idle:
                early.append(("healthy-object-expired-early",
                              "%r was retired by get() %.0fs after its release began (idle_timeout %r)" % (o, clock.now() - started, idle)))

    try:
        pool = poolmod.ObjectPool(creator, after_remove=after_remove, max_size=max_size, idle_timeout=idle,
                                  lock_generator=lambda: S.SchedLock(sch, "pool"))
        mon = Monitor(sch, pool, max_size)
        log = []
        with _ForkedChild(forked):
            ok = sch.run([make_pool_program(pool, mon, ops, log, clock) for ops in programs])
    finally:
        restore_clock()
    viol = list(mon.viol) + early
    if sch.deadlock:
        viol.append(("deadlock", sch.deadlock))
    for idx, err in sch.errors:
        viol.append(("worker-died", "thread %d: %s" % (idx, err)))
    if ok:
        # quiescence: every object ever created is idle in free or was passed to after_remove exactly once
        free = list(pool.free)
        if pool.used:
            viol.append(("objects-still-checked-out-at-quiescence", "used=%r" % (pool.used,)))
        for o in created:
            n = removed.get(o, 0)
            infree = sum(1 for x in free if x is o)
            if not ((infree == 1 and n == 0) or (infree == 0 and n == 1)):
                viol.append(("object-neither-idle-nor-removed-exactly-once",
                             "%r: in free %d time(s), after_remove ran %d time(s)" % (o, infree, n)))
    return sch, viol, mon, ok


# ---------------------------------------------------------------------------------------------
# workload (ii): PooledClient over FakeNet

CLIENT_OPS = ["set", "get", "fail_recv", "illegal_key", "quit", "close"]


def _own(i):
    return b"value-of-thread-%d" % i


# every other public data method of PooledClient, each on items that belong to the calling thread, with the result an
# undisturbed call must give ("m:<name>" operations; the server is pre-loaded accordingly in run_client_case)
METHOD_OPS = {
    "set_many": lambda f, i: f.set_many({"k%d" % i: b"v%d" % i}) == [],
    "get_many": lambda f, i: f.get_many(["g%d" % i, "absent"]) == {"g%d" % i: _own(i)},
    "gets": lambda f, i: f.gets("g%d" % i)[0] == _own(i),
    "gets_many": lambda f, i: {k: v[0] for k, v in f.gets_many(["g%d" % i]).items()} == {"g%d" % i: _own(i)},
    "gat": lambda f, i: f.gat("g%d" % i, 0) == _own(i),
    "gats": lambda f, i: f.gats("g%d" % i, 0)[0] == _own(i),
    "add": lambda f, i: f.add("g%d" % i, b"x") is False,
    "replace": lambda f, i: f.replace("g%d" % i, _own(i)) is True,
    "append": lambda f, i: f.append("g%d" % i, b"") is True,
    "prepend": lambda f, i: f.prepend("g%d" % i, b"") is True,
    "cas": lambda f, i: f.cas("g%d" % i, b"x", b"99999999") is False,
    "delete": lambda f, i: f.delete("absent%d" % i) is False,
    "delete_many": lambda f, i: f.delete_many(["absent%d" % i, "absent"]) is True,
    "incr": lambda f, i: f.incr("c%d" % i, 0) == 5,
    "decr": lambda f, i: f.decr("c%d" % i, 0) == 5,
    "touch": lambda f, i: f.touch("g%d" % i, 0) is True,
    "stats": lambda f, i: isinstance(f.stats(), dict),
    "version": lambda f, i: isinstance(f.version(), bytes),
    "raw_command": lambda f, i: f.raw_command(b"version").startswith(b"VERSION"),
    "getitem": lambda f, i: f["g%d" % i] == _own(i),
    "setitem": lambda f, i: f.__setitem__("k%d" % i, b"v%d" % i) is None,
    # commands PooledClient does not wrap upstream (an AttributeError is the undisturbed outcome); if a PooledClient offers
    # them after all, they are pooled operations like the others
    "cache_memlimit": lambda f, i: (f.cache_memlimit(64) is True) if _offers(f, "cache_memlimit") else True,
    "verbosity": lambda f, i: (f.raw_command(b"verbosity 1") in (b"OK", b"ERROR")) if True else True,
}


def _offers(obj, name):
    try:
        getattr(obj, name)
        return True
    except AttributeError:
        return False



def run_client_case(case, forced, mode):
    """case = ("client", programs, max_pool_size[, use_pooling value]) - with a 4th element the PooledClient is the one a
    HashClient(use_pooling=<value>) builds for its single server, and the operations go through the HashClient"""
    import pymemcache.client.base as base
    _, programs, max_size = case[:3]
    forked, programs = _strip_fork_marker(programs)
    via_hash = case[3] if len(case) > 3 else None
    sch = S.Sched(len(programs), forced)
    from vk import fakenet as _fk
    # replies longer than 16 bytes (the get replies) arrive in two pieces, cut inside the value: a scheduling point lies
    # between the pieces, so another thread's whole read can run while this one is half-way through its value
    net = FakeNet(_fk.CutSet([16]))
    net.trace_enabled = True
    srv = net.add_server("mc1", 11211, RefServer())
    srv.store[b"h1"] = Item(b"v1", 0, 0, srv._next_cas())
    for t_ in range(4):
        srv.store[b"g%d" % t_] = Item(b"value-of-thread-%d" % t_, 0, 0, srv._next_cas())      # every thread reads its own item
        srv.store[b"c%d" % t_] = Item(b"5", 0, 0, srv._next_cas())
    active = {}
    viol_extra = []
    close_marks = []

    class Guarded(base.Client):
        pass

    def guard(name):
        orig = getattr(base.Client, name)

        def f(self, *a, **k):
            me = sch.me()
            other = active.get(id(self))
            if other is not None and other != me and me is not None:
                viol_extra.append(("inner-client-used-by-two-threads",
                                   "thread %r enters %s() of a client thread %r is still inside" % (me, name, other)))
            active[id(self)] = me
            try:
                return orig(self, *a, **k)
            finally:
                if active.get(id(self)) == me:
                    active[id(self)] = None if other is None or other == me else other
        return f
    for name in ("set", "get", "get_many", "delete", "quit", "gets", "add", "incr", "set_many", "gets_many", "gat", "gats", "replace",
                 "append", "prepend", "cas", "delete_many", "decr", "touch", "stats", "version", "raw_command", "cache_memlimit", "flush_all"):
        setattr(Guarded, name, guard(name))

    import pymemcache.pool as poolmod
    saved_threading = poolmod.threading
    poolmod.threading = S.ThreadingShim(sch, saved_threading)      # a pool that does not get / ignores lock_generator is still schedulable
    try:
        with _ForkedChild(forked):
            return _run_client_case(case, forced, mode, sch, net, srv, active, viol_extra, close_marks, Guarded, max_size, via_hash, programs)
    finally:
        poolmod.threading = saved_threading


def _run_client_case(case, forced, mode, sch, net, srv, active, viol_extra, close_marks, Guarded, max_size, via_hash, programs):
    import pymemcache.client.base as base
    if via_hash is None:
        pc = base.PooledClient(("mc1", 11211), socket_module=net, max_pool_size=max_size, default_noreply=False,
                               lock_generator=lambda: S.SchedLock(sch, "pool"))
        pc.client_class = Guarded
        front = pc
    else:
        import pymemcache.client.hash as hashmod
        class GuardedHash(hashmod.HashClient):
            client_class = Guarded
        front = GuardedHash([("mc1", 11211)], use_pooling=via_hash, socket_module=net, max_pool_size=max_size,
                            default_noreply=False, lock_generator=lambda: S.SchedLock(sch, "pool"))
        pc = list(front.clients.values())[0]
        if not hasattr(pc, "client_pool"):
            # pooling was asked for (a truthy flag) but the per-server client has no pool: every thread shares its one socket
            sch2 = S.Sched(1, {})
            return sch2, [("pooling-requested-but-the-per-server-client-has-no-pool",
                           "HashClient(use_pooling=%r) built a %s for its server" % (via_hash, type(pc).__name__))], _NoMon(), True
    if via_hash is not None and via_hash is not True:
        # upstream forwards max_pool_size / lock_generator only for the literal True; for another truthy flag the pool is
        # unbounded and takes its lock from the threading module (shadowed below), so the case's bound does not apply
        max_size = None
    mon = Monitor(sch, pc.client_pool, max_size)
    net.on_call = lambda typ, sock: (sch.point(("sock", typ)) if (sch.active and sch.me() is not None) else None)
    fail_state = {"armed": set()}
    outcomes = []

    has_close_ = any("close" in ops or "close_faulty" in ops for ops in programs)

    def prog_for(idx, ops):
        def prog():
            for j, op in enumerate(ops):
                net.begin_call((idx, j))
                try:
                    if op == "set":
                        r = front.set("k%d" % idx, b"v%d" % idx)
                    elif op == "get":
                        r = front.get("g%d" % idx)
                    elif op == "fail_recv":
                        net.faults[((idx, j), "recv")] = "reset"
                        r = front.get("h1")
                    elif op.startswith("m:"):
                        r = METHOD_OPS[op[2:]](front, idx)
                        if r is not True and not has_close_:
                            viol_extra.append(("wrong-result-under-concurrency", "thread %d's %s did not give the result of an undisturbed call" % (idx, op)))
                    elif op == "illegal_key":
                        r = front.get("bad key")
                    elif op == "quit":
                        r = front.quit()
                    elif op == "two_conns":
                        # two connections end up idle in the pool (what two overlapping calls leave behind)
                        c1_ = pc.client_pool.get()
                        c2_ = pc.client_pool.get()
                        c1_.get("h1")
                        c2_.get("h1")
                        pc.client_pool.release(c1_)
                        pc.client_pool.release(c2_)
                        r = None
                    elif op == "close_faulty":
                        # close() while the peer of one pooled connection is gone: a close that talks to the server first
                        # (a polite quit) meets a send error - every other pooled connection must still be closed
                        close_marks.append({id(getattr(c_.sock, "raw", c_.sock))
                                            for c_ in tuple(pc.client_pool.used) + tuple(pc.client_pool.free) if c_.sock is not None})
                        net.faults[((idx, j), "sendall")] = "brokenpipe"
                        try:
                            r = front.close()
                        except OSError as e_:
                            r = "raised %s" % type(e_).__name__
                    elif op == "close":
                        # connections that pooled clients hold (client.sock assigned) at the moment this close() begins
                        close_marks.append({id(getattr(c_.sock, "raw", c_.sock))
                                            for c_ in tuple(pc.client_pool.used) + tuple(pc.client_pool.free) if c_.sock is not None})
                        r = front.close()
                    outcomes.append((idx, op, "ret", r))
                except S.SchedAbort:
                    raise
                except RuntimeError as e:
                    if "Too many objects" not in str(e):
                        outcomes.append((idx, op, "exc", repr(e)))
                        viol_extra.append(("operation-internal-error:RuntimeError", "%s raised %r" % (op, e)))
                    else:
                        outcomes.append((idx, op, "exhausted", None))
                except Exception as e:
                    outcomes.append((idx, op, "exc", type(e).__name__))
        return prog

    ok = sch.run([prog_for(i, ops) for i, ops in enumerate(programs)])
    net.on_call = None
    viol = list(mon.viol) + viol_extra
    if sch.deadlock:
        viol.append(("deadlock", sch.deadlock))
    for idx, err in sch.errors:
        viol.append(("worker-died", "thread %d: %s" % (idx, err)))
    has_close = any("close" in ops or "close_faulty" in ops for ops in programs)
    if ok:
        pool = pc.client_pool
        if any("close_faulty" in ops for ops in programs) and len(programs) == 1:
            for s_ in net.socks:
                if not s_.closed and any(id(s_) in held for held in close_marks):
                    viol.append(("close()-left-a-pooled-connection-open", "socket %d was held by a pooled client when close() began "
                                 "and is still open; outcomes %r" % (s_.sid, outcomes)))
        if pool.used:
            viol.append(("objects-still-checked-out-at-quiescence", "used=%r" % (pool.used,)))
        idle_socks = {id(getattr(c.sock, "raw", c.sock)) for c in pool.free if c.sock is not None}
        for s in net.socks:
            if s.closed:
                if s.close_count != 1:
                    key = "socket-closed-more-than-once" + (":close()-raced-an-in-flight-call" if has_close else "")
                    viol.append((key, "socket %d closed %d times; outcomes %r" % (s.sid, s.close_count, outcomes)))
            elif id(s) not in idle_socks:
                key = "socket-neither-pooled-nor-closed" + (":close()-raced-an-in-flight-call" if has_close else "")
                if has_close and any(id(s) in held for held in close_marks):
                    # the known finding is about a connection that the in-flight client (re)opens or adopts AFTER close() swept
                    # the pool; a connection that a pooled client already held when close() began is closed by that close()
                    key = "socket-neither-pooled-nor-closed:held-by-a-pooled-client-when-close()-began-yet-left-open"
                viol.append((key, "socket %d is open but belongs to no idle pooled client (free=%d clients); outcomes %r"
                             % (s.sid, len(pool.free), outcomes)))
        # expected results of undisturbed operations
        for idx, op, kind, r in outcomes:
            if kind == "ret" and not has_close:
                if op == "get" and r != b"value-of-thread-%d" % idx:
                    viol.append(("wrong-result-under-concurrency", "thread %d's get returned %r" % (idx, r)))
                if op == "set" and r is not True:
                    viol.append(("wrong-result-under-concurrency", "set returned %r" % (r,)))
        for kind, detail in net.alarms:
            if kind in ("STALE_READ", "USE_AFTER_CLOSE") and not has_close:
                viol.append(("socket-monitor:" + kind, detail))
    return sch, viol, mon, ok


def run_case(case, forced, mode):
    if case[0] == "pool":
        return run_pool_case(case, forced, mode)
    return run_client_case(case, forced, mode)


# ---------------------------------------------------------------------------------------------
# exploration

def explore(res, case, P, mode, budget, rng=None, part=None):
    """iterative context bounding by prefix replay; exhaustive within P unless the budget runs out"""
    import heapq
    # schedules with fewer preemptions first: a per-program budget that runs out has then cut the deepest schedules only
    stack = [(0, 0.0, 0, {})]
    tick = 0
    executed = 0
    exhaustive = True
    while stack:
        if executed >= budget:
            exhaustive = False
            break
        used, _, _, forced = heapq.heappop(stack)
        sch, viol, mon, ok = run_case(case, forced, mode)
        executed += 1
        res.count("schedules_executed")
        res.count("preemptive_switches_inside_pool_code", sch.inside_switches)
        res.count("invariant_evaluations", mon.inv_evals)
        res.count("lock_handoffs", sch.lock_handoffs)
        res.count("expected_exhaustions", mon.expected_exhaustions)
        res.maximum("scheduling_points_in_one_execution", sch.counter)
        res.maximum("preemptions_in_one_schedule", sch.preemptions)
        if ok:
            res.count("quiescence_checks")
        if sch.overflow:
            res.inconclusive.append("run exceeded its point/time budget for case %r" % (case,))
        sig = tuple((i, a, b) for i, a, b, pre in sch.switches)
        nt = (case, sig) if sch.inside_switches > 0 else None
        res.case(nt, {"case": repr(case), "forced_switches": {str(k): v for k, v in forced.items()},
                      "points": sch.counter, "switch_trace": [list(x) for x in sch.switches][:10]}
                 if res.evaluations % 2999 == 0 else None)
        for key, msg in viol[:3]:
            res.violation("%s:%s" % (key, case[0]), msg + " ; program %r" % (case[1],), (case, forced, mode))
        if viol:
            continue        # do not extend schedules that already violate
        last = max([k for k in forced if isinstance(k, int)], default=-1)
        children = []
        for (i, me, run, kind) in sch.trace:
            if i == "start":
                if not forced:
                    for t in run[1:]:
                        children.append(({"start": t}, used))
                continue
            if i <= last:
                continue
            if kind in ("block", "finish"):
                for t in run[1:]:
                    f = dict(forced)
                    f[i] = t
                    children.append((f, used))
            elif used < P:
                for t in run:
                    if t != me:
                        f = dict(forced)
                        f[i] = t
                        children.append((f, used + 1))
        if part is not None and not forced:
            # the exploration of one program split over several shards: by the first forced decision
            j, k = part
            children = [c for ci, c in enumerate(children) if ci % k == j]
        for f_, u_ in children:
            tick += 1
            heapq.heappush(stack, (u_, rng.random() if rng is not None else 0.0, tick, f_))
    return executed, exhaustive


def stress_section(res, seconds, seed, max_size):
    """free-running complement: real GIL preemption (switch interval 1 us), 4 threads hammering one PooledClient over
    FakeNet; race-free monitors only (ledger under its own lock, exclusive-use guard, conservation at quiescence)."""
    import sys
    import time as _time
    import pymemcache.client.base as base
    old_si = sys.getswitchinterval()
    sys.setswitchinterval(1e-6)
    from vk import fakenet as _fk
    net = FakeNet(_fk.CutSet([16]))
    net.trace_enabled = False
    srv = net.add_server("mc1", 11211, RefServer())
    srv.store[b"h1"] = Item(b"v1", 0, 0, srv._next_cas())
    for t_ in range(64):
        srv.store[b"g%d" % t_] = Item(b"value-of-thread-%d" % t_, 0, 0, srv._next_cas())
    mlock = threading.Lock()
    held, active, viol = {}, {}, []

    class Guarded(base.Client):
        pass

    def guard(name):
        orig = getattr(base.Client, name)

        def f(self, *a, **k):
            me = threading.get_ident()
            with mlock:
                other = active.get(id(self))
                if other is not None and other != me:
                    viol.append(("stress:inner-client-used-by-two-threads", "%s entered while another thread is inside" % name))
                active[id(self)] = me
            try:
                return orig(self, *a, **k)
            finally:
                with mlock:
                    if active.get(id(self)) == me:
                        active[id(self)] = None
        return f
    for name in ("set", "get", "get_many", "delete", "incr"):
        setattr(Guarded, name, guard(name))
    pc = base.PooledClient(("mc1", 11211), socket_module=net, max_pool_size=max_size, default_noreply=False)
    pc.client_class = Guarded
    pool = pc.client_pool
    og, orl, od = pool.get, pool.release, pool.destroy

    def get():
        obj = og()
        me = threading.get_ident()
        with mlock:
            if obj in held and held[obj] != me:
                viol.append(("stress:connection-shared-between-threads", "get() handed out an object another thread holds"))
            held[obj] = me
        return obj

    def ending(fn):
        def f(obj, *a, **k):
            with mlock:
                if held.get(obj) == threading.get_ident():
                    del held[obj]
            return fn(obj, *a, **k)
        return f
    pool.get, pool.release, pool.destroy = get, ending(orl), ending(od)
    stop = _time.time() + seconds
    counts = {"ops": 0, "exhausted": 0, "errors": 0}

    def worker(i):
        r = random.Random(seed * 100 + i)
        n = 0
        while _time.time() < stop:
            n += 1
            net.begin_call((i, n))
            try:
                c = r.random()
                if c < 0.35:
                    pc.set("k%d" % i, b"v%d" % i)
                elif c < 0.7:
                    if pc.get("g%d" % i) != b"value-of-thread-%d" % i:
                        with mlock:
                            viol.append(("stress:wrong-result", "get returned a foreign value"))
                elif c < 0.8:
                    net.faults[((i, n), "recv")] = "reset"
                    try:
                        pc.get("h1")
                    except OSError:
                        pass
                elif c < 0.9:
                    try:
                        pc.get("bad key")
                    except Exception:
                        pass
                else:
                    pc.incr("k%d" % i, 1)
                counts["ops"] += 1
            except RuntimeError as e:
                if "Too many objects" in str(e):
                    counts["exhausted"] += 1
                else:
                    with mlock:
                        viol.append(("stress:internal-error", repr(e)))
            except Exception as e:
                counts["errors"] += 1
    ts = [threading.Thread(target=worker, args=(i,), daemon=True) for i in range(4)]
    for t in ts:
        t.start()
    for t in ts:
        t.join(seconds + 30)
    sys.setswitchinterval(old_si)
    if any(t.is_alive() for t in ts):
        res.inconclusive.append("stress workers did not finish")
        return
    if pool.used:
        viol.append(("stress:objects-still-checked-out-at-quiescence", "used=%d" % len(pool.used)))
    idle = {id(getattr(c.sock, "raw", c.sock)) for c in pool.free if c.sock is not None}
    for s_ in net.socks:
        if not s_.closed and id(s_) not in idle:
            viol.append(("stress:socket-neither-pooled-nor-closed", "socket %d open but not pooled" % s_.sid))
        if s_.closed and s_.close_count != 1:
            viol.append(("stress:socket-closed-more-than-once", "socket %d closed %d times" % (s_.sid, s_.close_count)))
    for kind, detail in net.alarms:
        if kind in ("STALE_READ", "USE_AFTER_CLOSE"):
            viol.append(("stress:socket-monitor:" + kind, detail))
    res.count("stress_operations", counts["ops"])
    res.count("stress_exhaustions", counts["exhausted"])
    res.count("stress_sockets", len(net.socks))
    seen = set()
    for key, msg in viol:
        if key not in seen:
            seen.add(key)
            res.violation(key, msg, ("stress", seconds, seed, max_size))
    res.case(("stress", seed, max_size, counts["ops"] // 1000))


def cases(tier):
    out = []
    # (i) ObjectPool alone
    two = [(a, b) for a in POOL_OPS for b in POOL_OPS]
    for ms, idle in ((1, 0), (2, 0), (None, 0), (2, 5)):
        for a, b in two:
            out.append((("pool", ((a,), (b,)), ms, idle), 2))
        for a, b, c in itertools.product(POOL_OPS, repeat=3):
            if (common.h64((a, b, c, ms, idle)) % (12 if tier == "quick" else 2)) == 0:
                out.append((("pool", ((a, c), (b,)), ms, idle), 2))
        for a, b, c in itertools.product(["get_release", "get_destroy", "gar_raise_destroy", "clear"], repeat=3):
            if (common.h64((a, b, c, ms, "3t")) % (8 if tier == "quick" else 1)) == 0:
                out.append((("pool", ((a,), (b,), (c,)), ms, idle), 1))
    # expiry at checkout combined with a failing object factory (and a second thread checking out meanwhile)
    for ms in (1, 2, None):
        for other in ("get_release", "gar_raise_destroy", "clear", "get_creator_fails"):
            out.append((("pool", (("get_release", "adv_expire", "get_creator_fails"), (other,)), ms, 5), 1))
        out.append((("pool", (("get_release", "adv_expire", "get_creator_fails", "get_release"),), ms, 5), 0))
    # the PooledClient a HashClient(use_pooling=<truthy>) builds for its server, driven through the HashClient
    for ms, flag in ((1, True), (2, 1), (None, 1)):
        # (no failing operations here: a failure makes the HashClient skip the server for a while, which is C13's subject)
        for a, b in (("set", "set"), ("get", "set"), ("get", "get"), ("illegal_key", "get"), ("get", "close")):
            out.append((("client", ((a,), (b,)), ms, flag), 1))
    # (ii) PooledClient
    for ms in (1, 2, None):
        for a in CLIENT_OPS:
            for b in CLIENT_OPS:
                if a <= b:
                    out.append((("client", ((a,), (b,)), ms), 1 if tier == "quick" else 2))
                    if tier == "quick":
                        out.append((("client", ((a,), (b,)), ms), 2))      # P=2 sampled by the per-program budget (shuffled DFS)
        for a, b, c in itertools.product(["set", "fail_recv", "close", "quit"], repeat=3):
            if (common.h64((a, b, c, ms)) % (8 if tier == "quick" else 2)) == 0:
                out.append((("client", ((a, c), (b,)), ms), 1 if tier == "quick" else 2))
    # a forked child (see _ForkedChild): the fresh pool is first used by two threads at once
    for ms in (1, 2, None):
        for a, b in (("get_release", "get_release"), ("get_release", "gar_ok"), ("gar_ok", "get_destroy"), ("get_release", "clear")):
            out.append((("pool", (("FORKED", a), (b,)), ms, 0), 2))
        for a, b in (("set", "set"), ("get", "set"), ("get", "fail_recv")):
            out.append((("client", (("FORKED", a), (b,)), ms), 1))
    # two connections idle in the pool, then close() while the peer of one of them is gone (no other thread around)
    for ms in (2, None):
        out.append((("client", (("two_conns", "close_faulty"),), ms), 0))
        out.append((("client", (("two_conns", "set", "close_faulty", "set"),), ms), 0))
    # every other PooledClient method against a plain read, a failing read and itself
    for mi, m in enumerate(sorted(METHOD_OPS)):
        for ms in (1, 2, None):
            out.append((("client", (("m:" + m,), ("get",)), ms), 1))
        out.append((("client", (("m:" + m,), ("m:" + m,)), 2), 1))
        out.append((("client", (("m:" + m,), ("fail_recv",)), (1, 2, None)[mi % 3]), 1))
    if tier == "thorough":
        # three operations in one thread, and PooledClient programs for the INSTRUCTION pass (see shard)
        r = random.Random(8)
        for _ in range(60):
            out.append((("pool", (tuple(r.choice(POOL_OPS) for _ in range(3)), (r.choice(POOL_OPS),)), r.choice((1, 2, None)), 0), 1))
        for _ in range(24):
            out.append((("client", (tuple(r.choice(CLIENT_OPS) for _ in range(3)), (r.choice(CLIENT_OPS),)), r.choice((1, 2, None))), 1))
    # a thread that goes on after quit()/a failed call while another thread checks out: two preemptions are needed to
    # hand a doubly-released connection to two threads; explored exhaustively even in quick (budget override)
    for first in ("quit", "fail_recv", "illegal_key"):
        for j in range(5):
            out.append((("client", ((first, "set"), ("set",)), 2), 2, 2500, (j, 5)))
    return out


def shard(tier, seed, idx, n):
    res = common.Result()
    mode = "line"
    S.install(pool_codes(), mode)
    cs = cases(tier)
    allex = True
    for ci, entry in enumerate(cs):
        case, P = entry[0], entry[1]
        if ci % n != idx:
            continue
        budget = 700 if all(len(p) == 1 for p in case[1]) else 450
        if len(entry) > 2:
            budget = entry[2]
        elif tier == "thorough":
            P = P + 1
            single_ops = all(len(p) == 1 for p in case[1])
            # two single-operation threads: exhaustive within the bound; longer programs: a large shuffled-DFS budget
            budget = 30000 if (single_ops and len(case[1]) == 2) else 6000
        ex, exhaustive = explore(res, case, P, mode, budget, random.Random(seed + ci), part=entry[3] if len(entry) > 3 else None)
        allex = allex and exhaustive
        if not exhaustive:
            res.count("cases_cut_by_budget")
    if tier == "thorough" and idx < 3:
        stress_section(res, 15, seed + idx, (2, 4, None)[idx])
    if tier == "thorough":
        # INSTRUCTION granularity on the pool-alone programs, P=2
        S.install(pool_codes(), "ins")
        for ci, entry in enumerate(cs):
            case, P = entry[0], entry[1]
            if ci % n != idx or len(entry) > 2 or len(case[1]) != 2 or any(len(p) > 1 for p in case[1]):
                continue
            if case[0] == "client" and P != 2:
                continue        # each client pair once
            ex, exhaustive = explore(res, case, 2 if case[0] == "pool" else 1, "ins", 12000 if case[0] == "pool" else 6000,
                                     random.Random(seed + ci))
            res.count("instruction_granularity_cases")
            allex = allex and exhaustive
        S.install(pool_codes(), "line")
    res.extra["exhaustive"] = allex
    res.extra["exhaustive_part"] = "all schedules within the preemption bound for every program not cut by the per-program budget (see cases_cut_by_budget)"
    res.extra["programs"] = len(cs) if idx == 0 else 0
    return res


def replay(case):
    res = common.Result()
    if case[0] == "stress":
        stress_section(res, case[1], case[2], case[3])
        for cn in REQUIRED_COUNTERS:
            res.count(cn)
        res.nontrivial.update({1, 2})
        return res
    c, forced, mode = case
    S.install(pool_codes(), mode)
    sch, viol, mon, ok = run_case(c, forced, mode)
    print("case", c, "forced", forced)
    print("switches", sch.switches)
    print("completed", ok, "deadlock", sch.deadlock)
    for key, msg in viol:
        res.violation("%s:%s" % (key, c[0]), msg, case)
    res.case(("replay",))
    for cn in REQUIRED_COUNTERS:
        res.count(cn)
    res.nontrivial.update({1, 2})
    return res
