"""C04 - what is stored is what is fetched: values and keys survive the round trip.

Monitor: the reference server's ground truth (what is stored under which wire key, with
which flags) plus a value oracle (bit-for-bit bytes; encoded text for str/int without a
serde; equal-and-same-type under pickle/compressed serdes); every round trip goes through
the real client's store and fetch paths over FakeNet with random reply segmentation."""
import random

from vk import common, driver, refs, valuegen

PROPERTY = "C04"
LEVEL = "exploration"
RULE = ("round trip = store (set/add/replace/cas/set_many, append/prepend composition, explicit flags) then fetch (get/gets/gat/gats/"
        "get_many/gets_many) of legal keys (str/bytes, unicode on/off, prefixes up to the 250-byte limit) and values (bytes over the "
        "full alphabet incl. protocol text; sizes 0,1,2,4095..4097,8192,12289,65536,1 MiB; str; int; generated objects under "
        "pickle protocols 0..5 / compressed / custom serdes) with key collections list/tuple/set/frozenset/dict/dict_keys/generator/"
        "iterator, random reply segmentation, on Client, PooledClient, HashClient(1..3). Each case is regenerated from its case seed. "
        "Non-trivial = value not [a-z]{1,10} or collection not a list or prefix or serde set; distinct by (value shape, size class, "
        "serde, collection, prefix?, store op, fetch op, stack).")
ASSUMPTIONS = [
    "RefServer is the 'faithful memcached' of the statement (item limit 1 MiB)",
    "the same wire key spelled both as str and bytes in one multi-key call is not generated",
]
MIN_NONTRIVIAL = {"quick": 5000, "thorough": 30000}
REQUIRED_COUNTERS = ["round_trips", "server_side_keys_checked", "multi_key_fetches", "values_compared"]
SHARDS = {"quick": 16, "thorough": 16}
TIMEOUT = {"quick": 900, "thorough": 7200}

STACKS = [("client", 1), ("pooled", 1), ("hash", 1), ("hash", 2), ("hash", 3), ("hashpooled", 2)]
COLLS = ["list", "tuple", "set", "frozenset", "dict", "dict_keys", "generator", "iterator", "list-with-repeats"]
STORES = ["set", "add", "replace", "cas", "set_many", "append", "prepend", "set-flags"]
FETCHES = ["get", "gets", "gat", "gats", "get_many", "gets_many"]
SERDES = ["none", "none", "pickle0", "pickle1", "pickle2", "pickle3", "pickle4", "pickle5", "compressed10", "compressed400", "custom",
          "zeroflag", "legacyfuncs"]
SIZES = [0, 1, 2, 10, 4095, 4096, 4097, 8192, 12289]


class CustomSerde:
    """own flags; refuses anything not written by itself"""

    def serialize(self, key, value):
        if isinstance(value, bytes):
            return b"C:" + value, 0x1234
        return repr(value).encode("utf8"), 0x2345

    def deserialize(self, key, value, flags):
        if flags == 0x1234 and value[:2] == b"C:":
            return value[2:]
        if flags == 0x2345:
            import ast
            return ast.literal_eval(value.decode("utf8"))
        raise ValueError("CustomSerde: unexpected flags %r for key %r" % (flags, key))


class ZeroFlagSerde:
    """transforms the value but always reports flags 0 (like the JSON example in the client's docstring)"""

    def serialize(self, key, value):
        return b"Z:" + repr(value).encode("utf8"), 0

    def deserialize(self, key, value, flags):
        import ast
        if value[:2] != b"Z:":
            raise ValueError("ZeroFlagSerde: not written by me: %r" % value[:10])
        return ast.literal_eval(value[2:].decode("utf8"))


def make_serde(name):
    if name == "zeroflag":
        return ZeroFlagSerde()
    from pymemcache import serde
    if name == "none":
        return None
    if name.startswith("pickle"):
        return serde.PickleSerde(pickle_version=int(name[6:]))
    if name.startswith("compressed"):
        return serde.CompressedSerde(min_compress_len=int(name[10:]))
    return CustomSerde()


def gen_key(rng, unicode, prefix, used):
    room = 250 - len(prefix)
    for _ in range(50):
        c = rng.randrange(8)
        if c == 0:
            k = "k%d" % rng.randrange(10 ** 6)
        elif c == 1:
            k = b"b%d" % rng.randrange(10 ** 6)
        elif c == 2:
            k = bytes(rng.choice([b for b in range(1, 256) if b not in refs.ILLEGAL_KEY_BYTES]) for _ in range(rng.randrange(1, 12)))
        elif c == 3:
            k = "K" * room if rng.random() < 0.5 else b"B" * room
        elif c == 4 and unicode:
            k = "ключ☃%d" % rng.randrange(1000)
        elif c == 5 and unicode:
            ch = rng.choice("é€\U0001F600")
            k = (ch * (room // len(ch.encode("utf8"))))[: max(1, room // len(ch.encode("utf8")))]
        elif c == 6:
            k = "END" if rng.random() < 0.5 else b"VALUE"
        else:
            k = "".join(chr(rng.randrange(0x21, 0x7F)) for _ in range(rng.randrange(1, 30)))
        if prefix and len(prefix) < 100 and rng.random() < 0.15:
            # a key that itself begins with the configured prefix: the prefix is still applied on the wire
            try:
                k = (prefix + k) if isinstance(k, bytes) else (prefix.decode("ascii") + k)
            except UnicodeDecodeError:
                pass
        ok, wire = refs.key_legal(k, unicode, prefix)
        if ok and wire and wire not in used:
            used.add(wire)
            return k, wire
    k = "fallback%d" % len(used)
    ok, wire = refs.key_legal(k, unicode, prefix)
    used.add(wire)
    return k, wire


def gen_value(rng, serde_name, tier):
    if serde_name in ("zeroflag", "legacyfuncs"):
        return rng.choice([b"bytes\r\nvalue", "text", 17, ("tuple", 1), {"k": [1, 2]}, b"", None, 2.5])
    if serde_name in ("none", "custom") or rng.random() < 0.25:
        c = rng.randrange(9)
        if c == 0:
            return rng.choice([b"\r\n", b"END\r\n", b"VALUE k 0 1\r\nx\r\nEND\r\n", b"\r", b"\n", b"abc\r", b"STORED\r\n", b""])
        if c == 1:
            n = rng.choice(SIZES)
            return bytes(rng.randrange(256) for _ in range(n))
        if c == 2 and serde_name != "custom":
            return rng.choice(["text", "", "plain ascii text with spaces"])
        if c == 3 and serde_name != "custom":
            return rng.choice([0, 7, -12, 10 ** 30])
        if c == 4:
            # up to the item limit (1 MiB) minus room for what a custom serde / append composition adds
            big = 65536 if rng.random() < 0.8 or tier == "quick" else (1 << 20) - 64
            return (bytes(range(256)) * (big // 256 + 1))[:big]
        if c == 5:
            return bytes(rng.choice(b"\r\n EDNVALU") for _ in range(rng.randrange(1, 60)))
        return bytes(rng.randrange(256) for _ in range(rng.randrange(0, 50)))
    return valuegen.value(rng)


def expected_value(v, serde_name, encoding):
    """what a fetch must return (no serde: encoded text)"""
    if serde_name == "none":
        if isinstance(v, bytes):
            return v
        return str(v).encode(encoding)
    return v


def collection(kind, keys, rng):
    if kind == "list":
        return list(keys)
    if kind == "tuple":
        return tuple(keys)
    if kind == "set":
        return set(keys)
    if kind == "frozenset":
        return frozenset(keys)
    if kind == "dict":
        return {k: None for k in keys}
    if kind == "dict_keys":
        return {k: None for k in keys}.keys()
    if kind == "list-with-repeats":
        ks = list(keys)
        return [ks[0]] + ks + [ks[-1], ks[0]]
    if kind == "generator":
        return (k for k in keys)
    return iter(list(keys))


def run_case(res, case_seed, tier):
    rng = random.Random(case_seed)
    # every dimension drawn independently from the case seed, so any run length samples the whole grid
    g = random.Random(case_seed * 2654435761 % (1 << 32))
    serde_name = g.choice(SERDES)
    stack, nserv = g.choice(STACKS)
    coll = g.choice(COLLS)
    store = g.choice(STORES)
    fetch = g.choice(FETCHES)
    unicode = rng.random() < 0.4
    prefix = rng.choice([b"", b"", b"p:", b"ns/" * 20, b"P" * 200])
    encoding = rng.choice(["ascii", "utf8"])
    if store in ("append", "prepend", "set-flags"):
        serde_name = "none"
    cfg = {"allow_unicode_keys": unicode, "key_prefix": prefix, "encoding": encoding, "default_noreply": rng.random() < 0.5}
    servers = [("mc%d" % i, 11211) for i in range(1, nserv + 1)]
    if serde_name == "legacyfuncs":
        z = ZeroFlagSerde()
        cfg = dict(cfg, serializer=z.serialize, deserializer=z.deserialize)
    w = driver.World({"stack": stack, "servers": servers, "cfg": cfg, "seg": ("random", case_seed), "prefill": {}})
    sd = make_serde(serde_name) if serde_name != "legacyfuncs" else None
    if sd is not None:
        _set_serde(w.obj, sd)
    case = case_seed
    mech = "%s:%s->%s:%s:%s" % (stack, store, fetch, serde_name, coll if fetch.endswith("many") else "single")
    try:
        used = set()
        nkeys = rng.randrange(1, 6) if (fetch.endswith("many") or store == "set_many") else 1
        keys = []
        vals = {}
        for _ in range(nkeys):
            k, wire = gen_key(rng, unicode, prefix, used)
            v = gen_value(rng, serde_name, tier)
            if serde_name == "none" and isinstance(v, str) and encoding == "ascii" and not v.isascii():
                v = "ascii only"
            keys.append((k, wire))
            vals[wire] = v
        absent, absent_wire = gen_key(rng, unicode, prefix, used)
        # ---- store
        call = 0

        def do(op, *a, **kw):
            nonlocal call
            out = w.call(call, (op, a, kw))
            call += 1
            return out

        flags_used = {}
        for k, wire in keys if store != "set_many" else []:
            v = vals[wire]
            if store in ("set", "set-flags"):
                if store == "set-flags":
                    flags_used[wire] = rng.choice([1, 5, 65535, 2 ** 32 - 1])
                    out = do("set", k, v, noreply=False, flags=flags_used[wire])
                else:
                    out = do("set", k, v, rng.choice([0, 0, 100]), noreply=rng.choice([False, None]))
            elif store == "add":
                out = do("add", k, v, noreply=False)
            elif store == "replace":
                do("set", k, b"old", noreply=False)
                out = do("replace", k, v, noreply=False)
            elif store == "cas":
                do("set", k, b"old", noreply=False)
                tok = do("gets", k)
                if tok[0] != "ret" or tok[1][1] is None:
                    res.violation("gets-before-cas-failed:" + mech, "gets(%r) -> %r" % (k, tok), case)
                    return
                out = do("cas", k, v, tok[1][1], noreply=False)
            elif store in ("append", "prepend"):
                if not isinstance(v, bytes):
                    v = str(v).encode(encoding)
                    vals[wire] = v
                do("set", k, b"<base>", noreply=False)
                out = do(store, k, v, noreply=False)
                vals[wire] = b"<base>" + v if store == "append" else v + b"<base>"
            if out[0] != "ret" or out[1] not in (True,):
                res.violation("store-failed:" + mech, "%s(%r, %s) -> %r" % (store, k, valuegen.shape(vals[wire]), out), case)
                return
        if store == "set_many":
            out = do("set_many", {k: vals[wire] for k, wire in keys}, noreply=False)
            if out != ("ret", []):
                res.violation("store-failed:" + mech, "set_many -> %r" % (out,), case)
                return
        # ---- ground truth on the servers: exactly prefix + encoded key
        stored = {}
        for srv in w.servers.values():
            for wk, (val, fl, cas) in srv.live_items().items():
                stored[wk] = (val, fl)
        res.count("server_side_keys_checked", len(keys))
        for k, wire in keys:
            if wire not in stored:
                res.violation("wire-key-not-prefix-plus-key:" + mech,
                              "stored %r but server holds keys %r (expected %r)" % (k, sorted(stored)[:5], wire), case)
                return
            if serde_name == "none" and store not in ("append", "prepend"):
                expb = expected_value(vals[wire], "none", encoding)
                if stored[wire][0] != expb:
                    res.violation("server-holds-different-bytes:" + mech, "key %r: server holds %d bytes, stored %d bytes"
                                  % (wire, len(stored[wire][0]), len(expb)), case)
            if wire in flags_used and stored[wire][1] != flags_used[wire]:
                res.violation("explicit-flags-ignored:" + mech, "flags=%d passed, server holds %d" % (flags_used[wire], stored[wire][1]), case)
        extra = set(stored) - {wire for _, wire in keys}
        if extra:
            res.violation("unexpected-server-keys:" + mech, "server also holds %r" % (sorted(extra)[:3],), case)
        # ---- fetch
        req = [k for k, _ in keys] + [absent]
        rng.shuffle(req)
        want = {k: expected_value(vals[wire], serde_name, encoding) for k, wire in keys}
        if fetch.endswith("many"):
            res.count("multi_key_fetches")
            out = do(fetch, collection(coll, req, rng))
            if out[0] != "ret":
                res.violation("fetch-raises:%s:%s" % (mech, out[1]), "%s(%s of %d keys) raised %s: %s" % (fetch, coll, len(req), out[1], out[2]), case)
                return
            got = out[1]
            if not isinstance(got, dict):
                res.violation("fetch-not-a-dict:" + mech, repr(got)[:100], case)
                return
            for rk in got:
                if not any(rk == k and type(rk) is type(k) for k in want):
                    res.violation("foreign-or-prefixed-key-in-result:" + mech,
                                  "result has key %r; requested %r" % (rk, [k for k in req][:6]), case)
            for k, exp in want.items():
                if k not in got:
                    res.violation("present-key-missing:" + mech, "key %r missing from %s result" % (k, fetch), case)
                    continue
                gv = got[k]
                if fetch == "gets_many":
                    if not (isinstance(gv, tuple) and len(gv) == 2 and gv[1] is not None):
                        res.violation("gets-shape:" + mech, repr(gv)[:80], case)
                        continue
                    gv = gv[0]
                res.count("values_compared")
                if not valuegen.same(exp, gv):
                    res.violation("value-differs:" + mech, "key %r: stored %s, fetched %s" % (k, _sh(exp), _sh(gv)), case)
            if absent in got:
                res.violation("absent-key-returned:" + mech, "%r" % (got[absent],), case)
        else:
            for k, exp in want.items():
                out = do(fetch, k, 30) if fetch in ("gat", "gats") else do(fetch, k)
                if out[0] != "ret":
                    res.violation("fetch-raises:%s:%s" % (mech, out[1]), "%s(%r) raised %s: %s" % (fetch, k, out[1], out[2]), case)
                    continue
                gv = out[1]
                if fetch in ("gets", "gats"):
                    if not (isinstance(gv, tuple) and len(gv) == 2 and gv[1] is not None):
                        res.violation("gets-shape:" + mech, repr(gv)[:80], case)
                        continue
                    gv = gv[0]
                res.count("values_compared")
                if not valuegen.same(exp, gv):
                    res.violation("value-differs:" + mech, "key %r: stored %s, fetched %s" % (k, _sh(exp), _sh(gv)), case)
            out = do("get", absent)
            if out != ("ret", None):
                res.violation("absent-key-returned:" + mech, repr(out)[:80], case)
        res.count("round_trips")
        for srv in w.servers.values():
            if srv.malformed:
                res.violation("malformed-on-wire:" + mech, repr(srv.malformed[0])[:120], case)
        v0 = vals[keys[0][1]]
        nt = None
        if not (isinstance(v0, bytes) and v0.isalpha() and len(v0) <= 10) or coll != "list" or prefix or serde_name != "none":
            nt = (valuegen.shape(v0), serde_name, coll if fetch.endswith("many") else "-", bool(prefix), store, fetch, stack, nserv)
        res.case(nt, {"case_seed": case_seed, "stack": stack, "servers": nserv, "store": store, "fetch": fetch, "serde": serde_name,
                      "collection": coll, "prefix_len": len(prefix), "keys": [repr(k)[:40] for k, _ in keys][:3],
                      "value0": _sh(v0)} if res.evaluations % 997 == 0 else None)
    finally:
        w.close()


def _sh(v):
    r = repr(v)
    return "%s:%s" % (type(v).__name__, r if len(r) < 70 else r[:60] + "...(%d)" % len(r))


def _set_serde(obj, sd):
    import pymemcache.client.base as base
    if isinstance(obj, (base.Client, base.PooledClient)):
        obj.serde = sd
    else:
        obj.default_kwargs["serde"] = sd
        for c in obj.clients.values():
            c.serde = sd


def shard(tier, seed, idx, n):
    res = common.Result()
    total = 24000 if tier == "quick" else 300000
    base = seed * 10_000_019
    for i in range(total):
        if i % n != idx:
            continue
        try:
            run_case(res, base + i, tier)
        except Exception as e:
            import traceback
            res.violation("harness-or-client-crash:%s" % type(e).__name__, traceback.format_exc()[-600:], base + i)
    return res


def replay(case):
    res = common.Result()
    run_case(res, case, "thorough")
    for c in REQUIRED_COUNTERS:
        res.count(c)
    res.nontrivial.update({1, 2})
    return res
