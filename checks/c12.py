"""C12 - HashClient single-key and multi-key operations agree on where a key lives.

Monitor: per-server parsed command logs of the reference servers behind a multi-server
FakeNet.  Placement is known to the harness independently of the library by passing a
harness-defined hasher= (crc32 mod n, or an explicit table), and in a second configuration
the default RendezvousHash cross-checked with the independent rendezvous reference."""
import random
import zlib

from vk import common, refs
from vk.fakenet import FakeNet
from vk.refserver import RefServer

PROPERTY = "C12"
LEVEL = "exploration"
RULE = ("1..5 servers (TCP and UNIX) x key sets of size 0..50 (str or bytes, (server_key, key) pairs mixed in) x prefixes x "
        "use_pooling on/off x placements (crc32 mod n, all-on-one, round-robin table, default rendezvous) x every key-addressed "
        "operation; per key: single-key ops reach only owner(k) with wire key prefix+k; multi-key ops send each key to owner(k) "
        "exactly once and merge; get_many == per-key gets; set/set_many found by get/gets/delete/incr/touch; set_many failed list "
        "== union of per-server refusals. Non-trivial = >=2 servers and a multi-key call spanning >=2 servers; distinct by "
        "(server count, placement, key-set shape, op, pooling, prefix?).")
ASSUMPTIONS = [
    "every raw key has one routing key within a scenario (a key is never addressed both bare and through a server key)",
    "str and bytes spellings of a key are never mixed for one raw key",
]
MIN_NONTRIVIAL = {"quick": 800, "thorough": 8000}
REQUIRED_COUNTERS = ["single_key_ops_routed", "multi_key_calls_checked", "commands_attributed", "merged_results_compared"]
SHARDS = {"quick": 16, "thorough": 16}
TIMEOUT = {"quick": 900, "thorough": 7200}


def kb(k):
    return k if isinstance(k, bytes) else k.encode("utf8")


class CrcHasher:
    mode = "crc"
    table = None

    def __init__(self):
        self.nodes = []

    def add_node(self, n):
        if n not in self.nodes:
            self.nodes.append(n)

    def remove_node(self, n):
        self.nodes.remove(n)

    def get_node(self, key):
        if not self.nodes:
            return None
        nodes = sorted(self.nodes)
        if self.mode == "one":
            return nodes[-1]
        if self.mode == "table":
            # round robin on the numeric suffix of the routing key, else crc
            digits = "".join(ch for ch in (key.decode("latin-1") if isinstance(key, bytes) else key) if ch.isdigit())
            if digits:
                return nodes[int(digits) % len(nodes)]
        return nodes[zlib.crc32(kb(key)) % len(nodes)]


def make_hasher(mode):
    return type("H_" + mode, (CrcHasher,), {"mode": mode})


def owner_of(mode, nodes, routing_key):
    if mode == "rendezvous":
        return refs.rendezvous_ref(nodes, routing_key)
    h = make_hasher(mode)()
    for n in nodes:
        h.add_node(n)
    return h.get_node(routing_key)


def _coll(rng, items):
    """the key collection as a list, a tuple, a one-shot generator or an iterator (Iterable[Key] is what the methods take)"""
    c = rng.randrange(4)
    if c == 0:
        return list(items)
    if c == 1:
        return tuple(items)
    if c == 2:
        return (x for x in items)
    return iter(list(items))


def scenario(res, seed, tier):
    import pymemcache.client.hash as hashmod
    rng = random.Random(seed)
    nserv = 1 + seed % 5
    mode = ["crc", "rendezvous", "table", "one", "crc", "rendezvous"][(seed // 5) % 6]
    pooling = (seed // 30) % 2 == 1
    prefix = [b"", b"px:", b""][(seed // 60) % 3]
    net = FakeNet()
    servers, specs = {}, []
    for i in range(nserv):
        if i == 3:
            path = "/tmp/mc-%d.sock" % i
            servers[path] = net.add_unix(path, RefServer(name=path))
            specs.append(path)
        else:
            host = "mc%d" % i
            servers["%s:%d" % (host, 11211 + i)] = net.add_server(host, 11211 + i, RefServer(name=host))
            specs.append((host, 11211 + i))
    nodes = list(servers)
    kw = dict(socket_module=net, key_prefix=prefix, use_pooling=pooling, default_noreply=False)
    with_serde = (seed // 7) % 4 == 0
    if with_serde:
        # stored values that are None / falsy after deserialisation (negative caching): present is not the same as absent
        from pymemcache import serde as _serde
        kw["serde"] = _serde.pickle_serde
    if mode != "rendezvous":
        kw["hasher"] = make_hasher(mode)
    hc = hashmod.HashClient(specs, **kw)
    # a neighbour: another HashClient in the same process, other servers, used in between (an application with two clusters);
    # what one client learns or stores about its servers must not leak into the other
    nb_servers = {"nb%d:%d" % (j, 12000 + j): net.add_server("nb%d" % j, 12000 + j, RefServer(name="nb%d" % j)) for j in range(2)}
    nb = hashmod.HashClient([("nb0", 12000), ("nb1", 12001)], socket_module=net, default_noreply=False, use_pooling=not pooling)

    def neighbour_traffic():
        for j in range(3):
            nb.set("nb-%d" % j, b"x")
            if nb.get("nb-%d" % j) != b"x":
                res.violation("neighbour-client-disturbed", "a second HashClient in the same process lost its own item", seed)
        res.count("neighbour_client_operations", 6)
    neighbour_traffic()
    if rng.random() < 0.3:
        # a reconfiguration attempt with a malformed address fails; rotation must be unaffected
        for bad in ("10.0.0.99:1121l", ["not", "a", "spec"]):
            try:
                hc.add_server(bad)
            except Exception:
                res.count("failed_add_server_attempts")
    # ---- key set
    nkeys = rng.choice([0, 1, 2, 3, 5, 8, 13, 30, 50])
    use_bytes = rng.random() < 0.3
    keys = []          # (arg as passed, routing key, raw key)
    for j in range(nkeys):
        raw = ("key%d-%d" % (j, rng.randrange(1000)))
        if use_bytes:
            raw = raw.encode()
        if rng.random() < 0.25:
            sk = "sk%d" % rng.randrange(6)
            if rng.random() < 0.2:
                sk = ""            # the empty server key is a server key like any other (all such pairs share one server)
            if use_bytes:
                sk = sk.encode()
            keys.append(((sk, raw), sk, raw))
        else:
            keys.append((raw, raw, raw))
    case = seed
    shape = (nserv, mode, pooling, bool(prefix), nkeys, use_bytes)

    def owner(rk):
        return owner_of(mode, nodes, rk if mode != "rendezvous" else rk)

    def marks():
        return {n: len(s.cmdlog) for n, s in servers.items()}

    def new_cmds(m):
        return {n: s.cmdlog[m[n]:] for n, s in servers.items()}

    def attribute(cmds, verb_ok):
        """-> {wire key: [server,...]} for commands whose verb is in verb_ok"""
        out = {}
        for n, lst in cmds.items():
            for c in lst:
                if c.verb in verb_ok:
                    for k in c.keys:
                        out.setdefault(k, []).append(n)
                        res.count("commands_attributed")
        return out

    def v(key, msg):
        res.violation("%s:%s:%s" % (key, mode, "pooled" if pooling else "plain"), msg + " [servers %d, prefix %r]" % (nserv, prefix), case)

    owners = {rk: owner(rk) for _, rk, _ in keys}
    spans = len({owners[rk] for _, rk, _ in keys})
    # 1. set each key, single-key path
    vals = {}
    for arg, rk, raw in keys:
        m = marks()
        val = b"val-" + kb(raw)
        if with_serde:
            val = [None, 0, "", b"", False, ("t", kb(raw)), val][len(vals) % 7]
        vals[raw] = val
        r = hc.set(arg, val)
        at = attribute(new_cmds(m), (b"set",))
        res.count("single_key_ops_routed")
        want_wire = prefix + kb(raw)
        if r is not True or at != {want_wire: [owners[rk]]}:
            v("single-key-op-misrouted:set", "set(%r) -> %r; commands %r; owner %r wire %r" % (arg, r, at, owners[rk], want_wire))
            return
    neighbour_traffic()
    # 2. multi-key get agrees with per-key gets
    if keys:
        m = marks()
        got_many = hc.get_many(_coll(rng, [a for a, _, _ in keys]))
        at = attribute(new_cmds(m), (b"get",))
        res.count("multi_key_calls_checked")
        for arg, rk, raw in keys:
            w = prefix + kb(raw)
            if at.get(w) != [owners[rk]]:
                v("multi-key-misrouted:get_many", "key %r sent to %r, owner is %r" % (arg, at.get(w), owners[rk]))
                return
        single = {}
        for arg, rk, raw in keys:
            m = marks()
            single[raw] = hc.get(arg)
            at = attribute(new_cmds(m), (b"get",))
            res.count("single_key_ops_routed")
            if at != {prefix + kb(raw): [owners[rk]]}:
                v("single-key-op-misrouted:get", "get(%r) commands %r owner %r" % (arg, at, owners[rk]))
                return
        res.count("merged_results_compared")
        if got_many != single or any(single[raw] != vals[raw] for _, _, raw in keys):
            v("merged-result-differs:get_many", "get_many -> %r ; per-key gets -> %r ; stored %r"
              % (_sh(got_many), _sh(single), _sh(vals)))
            return
        m = marks()
        gm = hc.gets_many([a for a, _, _ in keys])
        at = attribute(new_cmds(m), (b"gets",))
        res.count("multi_key_calls_checked")
        for arg, rk, raw in keys:
            if at.get(prefix + kb(raw)) != [owners[rk]]:
                v("multi-key-misrouted:gets_many", "key %r sent to %r, owner is %r" % (arg, at.get(prefix + kb(raw)), owners[rk]))
                return
        per = {raw: hc.gets(arg) for arg, rk, raw in keys}
        res.count("merged_results_compared")
        if gm != per:
            v("merged-result-differs:gets_many", "gets_many -> %r ; per-key gets -> %r" % (_sh(gm), _sh(per)))
            return
    if with_serde:
        # (the later steps append to / count on bytes values)
        for arg, rk, raw in keys:
            vals[raw] = b"val-" + kb(raw)
            hc.set(arg, vals[raw])
    # 3. set_many: each key to its owner exactly once; found by single-key ops afterwards
    if keys:
        newvals = {raw: b"sm-" + kb(raw) for _, _, raw in keys}
        refused = set()
        if nkeys >= 3 and rng.random() < 0.5:
            for _, rk, raw in rng.sample(keys, 2):
                refused.add(raw)
                servers[owners[rk]].refuse_set.add(prefix + kb(raw))
        m = marks()
        failed = hc.set_many({arg: newvals[raw] for arg, rk, raw in keys})
        at = attribute(new_cmds(m), (b"set",))
        res.count("multi_key_calls_checked")
        for arg, rk, raw in keys:
            if at.get(prefix + kb(raw)) != [owners[rk]]:
                v("multi-key-misrouted:set_many", "key %r sent to %r, owner is %r" % (arg, at.get(prefix + kb(raw)), owners[rk]))
                return
        if len(at) != len(keys):
            v("multi-key-extra-commands:set_many", "commands for %r" % (sorted(at),))
        if sorted(map(kb, failed)) != sorted(map(kb, refused)):
            v("set_many-failed-list-not-union", "servers refused %r, set_many returned %r" % (sorted(refused, key=kb), failed))
            return
        for s in servers.values():
            s.refuse_set.clear()
        for arg, rk, raw in keys:
            exp = vals[raw] if raw in refused else newvals[raw]
            ops = rng.sample(["get", "gets", "touch", "append", "prepend", "replace", "incr", "cas", "add", "delete"], 3)
            for opn in ops:
                m = marks()
                if opn == "get":
                    r = hc.get(arg)
                    good = r == exp
                elif opn == "gets":
                    r = hc.gets(arg)
                    good = isinstance(r, tuple) and r[0] == exp
                elif opn == "touch":
                    r = hc.touch(arg, 100)
                    good = r is True
                elif opn == "append":
                    r = hc.append(arg, b"+")
                    good = r is True
                    exp = exp + b"+"
                elif opn == "prepend":
                    r = hc.prepend(arg, b"+")
                    good = r is True
                    exp = b"+" + exp
                elif opn == "replace":
                    r = hc.replace(arg, b"R")
                    good = r is True
                    exp = b"R"
                elif opn == "incr":
                    hc.set(arg, b"41")
                    m = marks()
                    r = hc.incr(arg, 1)
                    good = r == 42
                    exp = b"42"
                elif opn == "cas":
                    tok = hc.gets(arg)[1]
                    m = marks()
                    r = hc.cas(arg, b"C", tok)
                    good = r is True
                    exp = b"C"
                elif opn == "add":
                    r = hc.add(arg, b"A")
                    good = r is False          # it exists: written by set/set_many
                else:
                    r = hc.delete(arg)
                    good = r is True
                at = attribute(new_cmds(m), (opn.encode(),))
                res.count("single_key_ops_routed")
                if at != {prefix + kb(raw): [owners[rk]]}:
                    v("single-key-op-misrouted:" + opn, "%s(%r) commands %r owner %r" % (opn, arg, at, owners[rk]))
                    return
                if not good:
                    v("written-by-set_many-not-found-by:" + opn, "%s(%r) -> %r after set_many (expected value %r)" % (opn, arg, r, exp))
                    return
                if opn == "delete":
                    break
    neighbour_traffic()
    # 4. delete_many
    if keys:
        m = marks()
        r = hc.delete_many(_coll(rng, [a for a, _, _ in keys]))
        at = attribute(new_cmds(m), (b"delete",))
        res.count("multi_key_calls_checked")
        for arg, rk, raw in keys:
            if at.get(prefix + kb(raw)) != [owners[rk]]:
                v("multi-key-misrouted:delete_many", "key %r deleted on %r, owner is %r" % (arg, at.get(prefix + kb(raw)), owners[rk]))
                return
        left = {n: sorted(s.live_items()) for n, s in servers.items() if s.live_items()}
        if left:
            v("delete_many-left-items", "items left: %r" % (left,))
    else:
        if hc.get_many([]) != {} or hc.set_many({}) != [] or hc.delete_many([]) is not True:
            v("empty-multi-key-call", "empty multi-key calls returned something unexpected")
        res.count("multi_key_calls_checked")
    # 5. the same bare key addressed through different server keys: each pair goes to owner(server_key) exactly once
    #    (routing only: the merged result is keyed by the bare key, so values are not compared here)
    import collections as _c
    sks = ["user:%d" % rng.randrange(50) for _ in range(rng.randrange(2, 5))]
    if use_bytes:
        sks = [x.encode() for x in sks]
    bare = b"profile" if use_bytes else "profile"
    pairs = [(sk, bare) for sk in dict.fromkeys(sks)]
    if rng.random() < 0.5:
        # the other spelling (str <-> bytes) of one of the server keys, with a bare key of its own, in the same batch: a
        # server key is routed as the object it is, in a multi-key call exactly as in a single-key one
        other = sks[0].decode() if isinstance(sks[0], bytes) else sks[0].encode()
        pairs.append((other, b"settings" if use_bytes else "settings"))
        res.count("batches_with_both_spellings_of_a_server_key")
    want = _c.Counter((owner(sk), prefix + kb(b_)) for sk, b_ in pairs)
    for opn, verb, call in (("set_many", b"set", lambda: hc.set_many({p: b"pv" for p in pairs})),
                            ("get_many", b"get", lambda: hc.get_many(pairs)),
                            ("gets_many", b"gets", lambda: hc.gets_many(pairs)),
                            ("delete_many", b"delete", lambda: hc.delete_many(pairs))):
        m = marks()
        call()
        got = _c.Counter()
        for n_, lst in new_cmds(m).items():
            for c in lst:
                if c.verb == verb:
                    for k in c.keys:
                        got[(n_, k)] += 1
                        res.count("commands_attributed")
        res.count("multi_key_calls_checked")
        # two pairs that land on the same server name the same item there: sending it once or once per pair are both fine
        if set(got) != set(want) or any(got[k] > want[k] for k in got):
            v("pair-not-sent-to-its-server-exactly-once:" + opn,
              "%s(%r): per-server commands %r, expected %r" % (opn, pairs, dict(got), dict(want)))
            return
    for n, s in servers.items():
        if s.malformed:
            v("malformed-on-wire", repr(s.malformed[0])[:100])
        foreign = [c for c in s.cmdlog if any(k.startswith(b"nb-") for k in c.keys)]
        if foreign:
            v("neighbour-clients-share-state", "%s received the other HashClient's command %r" % (n, foreign[0]))
    for n, s in nb_servers.items():
        foreign = [c for c in s.cmdlog if any(not k.startswith(b"nb-") for k in c.keys)]
        if foreign:
            v("neighbour-clients-share-state", "the other HashClient's server %s received %r" % (n, foreign[0]))
    if sorted(nb.hasher.nodes) != sorted(nb_servers):
        v("neighbour-clients-share-state", "the other HashClient's rotation is %r" % (sorted(nb.hasher.nodes),))
    import collections
    dist = tuple(sorted(collections.Counter(owners[rk] for _, rk, _ in keys).values()))
    npairs = sum(1 for a, _, _ in keys if isinstance(a, tuple))
    nt = shape + (spans, dist, npairs) if nserv >= 2 and spans >= 2 else None
    res.case(nt, {"seed": seed, "servers": nserv, "placement": mode, "pooling": pooling, "prefix": repr(prefix), "keys": nkeys,
                  "servers_spanned": spans, "sample_keys": [repr(a) for a, _, _ in keys[:3]]} if res.evaluations % 199 == 0 else None)


def _sh(x):
    r = repr(x)
    return r if len(r) < 300 else r[:290] + "..."


def shard(tier, seed, idx, n):
    res = common.Result()
    total = 2400 if tier == "quick" else 60000
    base = seed * 1_000_003
    for i in range(total):
        if i % n != idx:
            continue
        try:
            scenario(res, base + i, tier)
        except Exception as e:
            import traceback
            tb = traceback.format_exc()
            if "/pymemcache/" in tb:
                res.violation("operation-raises-on-healthy-servers:%s" % type(e).__name__,
                              "scenario %d: %s" % (base + i, tb[-700:]), base + i)
                res.case(None)
            else:
                raise
    return res


def replay(case):
    res = common.Result()
    scenario(res, case, "thorough")
    for c in REQUIRED_COUNTERS:
        res.count(c)
    res.nontrivial.update({1, 2})
    return res
