"""C10 - asynchronous interruption cannot desynchronise a client or leak a pool slot.

Monitor: the C01 reply-ownership tagger plus pool.used after the interrupted call has
unwound.  A BaseException (KeyboardInterrupt, SystemExit, a gevent-style timeout) is raised
from every socket call of every catalogue operation; it must reach the caller, and the
follow-up calls must never read the interrupted call's reply nor find the pool exhausted."""
import random

from vk import catalogue, common, driver, fakenet, history

PROPERTY = "C10"
LEVEL = "fault_enumeration"
RULE = ("history = [optional warm-up get] + one catalogue op interrupted by a BaseException raised from socket call j "
        "(every j of the fault-free trace x {KeyboardInterrupt, SystemExit, BaseException subclass}) + 4 follow-up calls; "
        "on Client, PooledClient(max_pool_size 1, 2), HashClient (pooled or not). Complete enumeration of crash points for "
        "single-operation histories; plus histories in which two calls are interrupted (every site x every site for 4x3 operation "
        "pairs); thorough adds random longer prefixes and all delivery schedules. Non-trivial = the "
        "interrupt fired and a follow-up exchanged bytes; distinct by (stack, cfg, op, warm?, site, kind, schedule).")
ASSUMPTIONS = [
    "an interrupt is raised from inside a socket call (connect/sendall/recv/settimeout/...), which is where gevent timeouts, signals delivered during blocking I/O and KeyboardInterrupt surface in practice",
    "RefServer models memcached; replies are tagged server-side with the call that caused them",
]
MIN_NONTRIVIAL = {"quick": 3000, "thorough": 20000}
REQUIRED_COUNTERS = ["interrupts_fired", "followup_recv_calls", "interrupt_reached_caller"]
SHARDS = {"quick": 16, "thorough": 16}
TIMEOUT = {"quick": 900, "thorough": 7200}

STACKS = [
    ("client", [("mc1", 11211)], {}),
    ("pooled", [("mc1", 11211)], {"max_pool_size": 1}),
    ("pooled", [("mc1", 11211)], {"max_pool_size": 2}),
    ("hash", [("mc1", 11211)], {}),
    ("hashpooled", [("mc1", 11211)], {"max_pool_size": 1}),
    ("hashpooled", [("mc1", 11211), ("mc2", 11211)], {"max_pool_size": 2}),
    # several servers without pooling: a multi-key call has one connection per server in flight when the interrupt comes
    ("hash", [("mc1", 11211), ("mc2", 11211), ("mc3", 11211)], {}),
    ("hash", [("mc1", 11211), ("mc2", 11211)], {"ignore_exc": True}),
    ("pooled", [("mc1", 11211)], {"max_pool_size": 1, "ignore_exc": True}),
    ("client", [("mc1", 11211)], {"ignore_exc": True}),
    # an idle connection expires at the next checkout: its close() is one more interruption point
    ("pooled", [("mc1", 11211)], {"max_pool_size": 1, "pool_idle_timeout": 5}),
    ("pooled", [("mc1", 11211)], {"max_pool_size": 2, "pool_idle_timeout": 5}),
    # TLS: the connection is used (and shut down) through the wrapper
    ("client", [("mc1", 11211)], {"tls": True}),
    ("pooled", [("mc1", 11211)], {"tls": True, "max_pool_size": 1}),
    # servers given as UNIX socket paths (self.server is a str, not a (host, port) pair, in every handler)
    ("client", ["/var/run/memcached/mc.sock"], {}),
    ("pooled", ["/var/run/memcached/mc.sock"], {"max_pool_size": 1, "ignore_exc": True}),
    ("hash", ["/var/run/memcached/mc.sock"], {"ignore_exc": True}),
]


def base_case(stack, servers, cfg, label, op, warm, seg, nprefix=0, rng=None):
    ops = []
    if warm:
        ops.append(("get", ("h3",), {}))
        if cfg.get("pool_idle_timeout"):
            ops.append(("advance", (cfg["pool_idle_timeout"] + 1,), {}))
    if nprefix and rng is not None:
        allops = [o for _, o in catalogue.ops_catalogue() if catalogue.supports(stack, o[0])
                  and o[0] not in ("quit", "shutdown", "flush_all")]
        ops.extend(rng.choice(allops) for _ in range(nprefix))
    faulted = len(ops)
    ops.append(op)
    k = (len(label) + warm) % len(catalogue.PROBES)
    probes = catalogue.PROBES[k:] + catalogue.PROBES[:k]
    ops.extend(p for _, p in probes)
    return {"stack": stack, "servers": servers, "cfg": cfg, "label": label, "ops": ops,
            "faulted": faulted, "faults": {}, "seg": seg}


def judge(case, obs):
    w = obs.world
    faulted = case["faulted"]
    op_method = case["ops"][faulted][0]
    fclass = history.fault_class(case["faults"])
    viol = []
    follow_io = 0
    reached = 0
    for rec in obs.calls:
        i, op, out = rec["i"], rec["op"], rec["out"]
        if i > faulted:
            follow_io += rec["recv"]
        if i == faulted and any((f[3] in fakenet.BASE_EXC_KINDS or f[3] in fakenet.BASE_EXC_DELIVERED) for f in obs.net.fired):
            if out[0] == "baseexc":
                reached = 1
            else:
                viol.append(("INTERRUPT_SWALLOWED:%s:%s" % (w.stack, op[0]),
                             "the injected %s did not reach the caller of %s: outcome %r" % (fclass, op[0], out[:2])))
        if i >= faulted and obs.net.fired:
            if any(u for u in rec["used"]):
                viol.append(("POOL_SLOT_LEAKED:%s:%s" % (w.stack, op_method),
                             "after call %d (%s) unwound, pool.used sizes are %r (interrupt %s in %s)"
                             % (i, op[0], rec["used"], fclass, op_method)))
            if out[0] == "exc" and out[1] == "RuntimeError" and "Too many objects" in out[2]:
                viol.append(("POOL_EXHAUSTED:%s:%s" % (w.stack, op_method),
                             "call %d %s fails with pool exhaustion after interrupt %s in %s" % (i, op[0], fclass, op_method)))
        if out[0] == "ret":
            for sid, n in rec["unread"]:
                viol.append(("UNREAD_REPLY:%s:%s" % (w.stack, op[0]),
                             "call %d %s returned leaving %d reply byte(s) unread on open socket %d" % (i, op[0], n, sid)))
        for kind, detail in rec["alarms"]:
            if kind in ("STALE_READ", "BLOCKED_RECV"):
                viol.append(("%s:%s:after-interrupted-%s" % (kind, w.stack, op_method),
                             "%s during call %d %s (outcome %r) after %s in %s: %s"
                             % (kind, i, op[0], out[:2], fclass, op_method, detail)))
    return viol, follow_io, reached


def run_group(res, stack, servers, cfg, label, op, warm, tier, rng):
    segs = [("whole",)]
    if tier == "thorough":
        segs += [("random", rng.randrange(1 << 30)), ("single",)]
    variants = [(0, seg) for seg in segs]
    if tier == "thorough":
        variants += [(rng.randint(1, 4), ("random", rng.randrange(1 << 30))) for _ in range(2)]
    for nprefix, seg in variants:
        case = base_case(stack, servers, cfg, label, op, warm, seg, nprefix, rng)
        obs = history.execute(case)
        plans, calls = history.single_fault_plans(case, obs, tier, rng, base_exc=True)
        # interrupts that arrive in sendall() after the request went out
        for idx, typ, sid in calls:
            if typ == fakenet.T_SENDALL:
                for kind in fakenet.BASE_EXC_DELIVERED:
                    plans.append({(case["faulted"], idx): kind})
        # depth 2: an ordinary failure first, then an interrupt in one of the socket calls of the cleanup that follows
        first, _ = history.single_fault_plans(case, obs, tier, rng, reply_faults=False,
                                              kinds={"reset", "timeout", "refused", "oserror", "eof", "brokenpipe"})
        for p1 in first:
            c1 = dict(case)
            c1["faults"] = p1
            o1 = history.execute(c1)
            if not o1.net.fired:
                continue
            (fc, fi), = p1.keys()
            for idx, typ, sid in driver.socket_calls_by_call(o1.net).get(fc, []):
                if idx > fi:
                    for kind in (("kbint", "greenlet") if tier == "quick" else fakenet.BASE_EXC_KINDS):
                        p2 = dict(p1)
                        p2[(fc, idx)] = kind
                        plans.append(p2)
        for plan in plans:
            c = dict(case)
            c["faults"] = plan
            o = history.execute(c)
            viol, follow_io, reached = judge(c, o)
            fired = len(o.net.fired)
            res.count("interrupts_fired", fired)
            res.count("followup_recv_calls", follow_io)
            res.count("interrupt_reached_caller", reached)
            res.count("tag_checked_bytes", o.net.counts.get("bytes_delivered", 0))
            for f in o.net.fired:
                res.count("site:" + f[2])
            nt = None
            if fired and follow_io:
                nt = (stack, len(servers), tuple(sorted(cfg.items())), label, warm, nprefix,
                      tuple(sorted(plan.items())), seg[0])
            res.case(nt, {"stack": stack, "cfg": cfg, "op": label, "interrupt": repr(plan),
                          "outcomes": [x["out"][:2] for x in o.calls]} if res.evaluations % 1999 == 0 else None)
            for key, msg in viol:
                res.violation(key, msg, c)


def two_interrupts(res, stack, servers, cfg, tier, rng):
    """two calls of one history are interrupted: the first interruption may leave something behind on the object (a flag,
    a half-finished close) that only matters when a later call is aborted too"""
    first_ops = [("quit", (), {}), ("get", ("h1",), {}), ("set", ("k-set", b"v"), {"noreply": False}), ("delete", ("h1",), {})]
    second_ops = [("get", ("h2",), {}), ("set", ("k2", b"new"), {"noreply": False}), ("incr", ("num", 1), {"noreply": False})]
    for ai, opA in enumerate(first_ops):
        if not catalogue.supports(stack, opA[0]):
            continue
        for bi, opB in enumerate(second_ops):
            ops = [("get", ("h3",), {}), opA, opB] + [p for _, p in catalogue.PROBES]
            case = {"stack": stack, "servers": servers, "cfg": cfg, "label": "two:%s+%s" % (opA[0], opB[0]), "ops": ops,
                    "faulted": 1, "faults": {}, "seg": ("whole",)}
            o0 = history.execute(case)
            for idxA, typA, sidA in driver.socket_calls_by_call(o0.net).get(1, []):
                kindsA = ["kbint"] + (["kbint_delivered"] if typA == fakenet.T_SENDALL else [])
                for kA in kindsA:
                    c1 = dict(case)
                    c1["faults"] = {(1, idxA): kA}
                    o1 = history.execute(c1)
                    if not o1.net.fired:
                        continue
                    for idxB, typB, sidB in driver.socket_calls_by_call(o1.net).get(2, []):
                        kindsB = ["greenlet"] + (["greenlet_delivered"] if typB == fakenet.T_SENDALL else [])
                        for kB in kindsB:
                            c2 = dict(c1)
                            c2["faults"] = {(1, idxA): kA, (2, idxB): kB}
                            o = history.execute(c2)
                            viol, follow_io, reached = judge(c2, o)
                            fired = len(o.net.fired)
                            res.count("interrupts_fired", fired)
                            res.count("followup_recv_calls", follow_io)
                            res.count("interrupt_reached_caller", reached)
                            res.count("histories_with_two_interrupted_calls", 1 if fired >= 2 else 0)
                            nt = (stack, len(servers), tuple(sorted(cfg.items())), "two", ai, bi, idxA, kA, idxB, kB) if fired >= 2 and follow_io else None
                            res.case(nt)
                            for key, msg in viol:
                                res.violation("two-interrupts:" + key, msg, c2)


def parked_pair(res, tier, rng):
    """Two connections of different ages idle in the pool (what concurrent callers leave behind), then a slow call during
    which the other one crosses the idle timeout: wherever the library closes that expired connection (at the next
    checkout, or when the slow call releases), an interrupt in that close() must not cost a pool slot."""
    servers = [("mc1", 11211)]
    for cfg in ({"max_pool_size": 2, "pool_idle_timeout": 5}, {"max_pool_size": 3, "pool_idle_timeout": 5, "ignore_exc": True}):
        for op in (("get", ("h1",), {}), ("set", ("k-set", b"v"), {"noreply": False}), ("delete", ("h1",), {})):
            for age_gap in (3, 6):
                ops = [op] + [p for _, p in catalogue.PROBES] + [p for _, p in catalogue.PROBES[:2]]
                case = {"stack": "pooled", "servers": servers, "cfg": cfg, "label": "parked:" + op[0], "ops": ops, "faulted": 0,
                        "faults": {}, "seg": ("whole",), "slow": {0: 6}, "parked": age_gap}

                def before_call(w, i, op_, case=case):
                    if i != 0:
                        return
                    pool = w.obj.client_pool
                    w.net.begin_call(("park", 0))
                    a, b = pool.get(), pool.get()
                    a.get("h3")
                    b.get("h3")
                    pool.release(a)
                    w.clock.advance(case["parked"])
                    pool.release(b)
                    w.net.end_call()
                o0 = history.execute(case, before_call=before_call)
                sites = driver.socket_calls_by_call(o0.net)
                plans = []
                for call_i in (0, 1):
                    for idx, typ, sid in sites.get(call_i, []):
                        for kind in (("kbint", "greenlet") if tier == "quick" else fakenet.BASE_EXC_KINDS):
                            plans.append({(call_i, idx): kind})
                for plan in plans:
                    c = dict(case)
                    c["faults"] = plan
                    o = history.execute(c, before_call=before_call)
                    (fc, _fi), = plan.keys()
                    c2 = dict(c)
                    c2["faulted"] = fc
                    viol, follow_io, reached = judge(c2, o)
                    fired = len(o.net.fired)
                    res.count("interrupts_fired", fired)
                    res.count("followup_recv_calls", follow_io)
                    res.count("interrupt_reached_caller", reached)
                    res.count("parked_pair_histories", 1 if fired else 0)
                    for f in o.net.fired:
                        res.count("site:" + f[2])
                    res.case(("parked", tuple(sorted(cfg.items())), op[0], age_gap, tuple(sorted(plan.items()))) if fired and follow_io else None)
                    for key, msg in viol:
                        res.violation("parked-pair:" + key, msg, c)


EXTRA_OPS = [("get-illegal-key", ("get", ("bad key",), {})), ("set-illegal-key", ("set", ("bad key", b"v"), {"noreply": False})),
             ("get_many-illegal-key", ("get_many", (["h1", "bad key"],), {}))]


def groups(tier):
    out = []
    for stack, servers, cfg in STACKS:
        for label, op in catalogue.ops_catalogue() + EXTRA_OPS:
            if not catalogue.supports(stack, op[0]):
                continue
            for warm in (0, 1):
                out.append((stack, servers, cfg, label, op, warm))
    return out


def shard(tier, seed, idx, n):
    res = common.Result()
    gs = groups(tier)
    for gi, g in enumerate(gs):
        if gi % n != idx:
            continue
        run_group(res, *g, tier, random.Random(seed * 7919 + gi))
    for si, (stack, servers, cfg) in enumerate(STACKS):
        if si % n == idx:
            two_interrupts(res, stack, servers, cfg, tier, random.Random(seed + si))
    if idx == 11 % n:
        parked_pair(res, tier, random.Random(seed))
    res.extra["exhaustive"] = True
    res.extra["exhaustive_part"] = "every socket call of every catalogue op x 3 interrupt kinds (single-operation histories)"
    return res


def replay(case):
    res = common.Result()
    if case.get("parked"):
        res.inconclusive.append("parked-pair cases are replayed by re-running the check (the pool is prepared by a harness hook)")
        return res
    o = history.execute(case)
    viol, follow_io, reached = judge(case, o)
    res.case(("replay",))
    for key, msg in viol:
        res.violation(key, msg, case)
    print("outcomes:", [x["out"] for x in o.calls])
    print("alarms:", o.net.alarms)
    return res
