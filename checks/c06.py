"""C06 - connection lifecycle: errors close, next call reconnects, no socket leaks.

Monitor: the FakeNet socket ledger.  Every socket the library creates is recorded with its
owner (the pymemcache Client on whose behalf it was created), every call made on it with the
timeout in force, and its closes.  Offline checker over the ledger after each call and at the
end of the history (after close()): at most one open socket per owner, nothing left open,
no use after close or after a failure, fresh reconnect that works, connect under
connect_timeout and I/O under timeout, TLS only through the wrapper, address fallback."""
import random
import socket as _socket

from vk import catalogue, common, driver, fakenet, history

PROPERTY = "C06"
LEVEL = "fault_enumeration"
RULE = ("history = [optional warm-up] + one op with a fault plan + 2 further calls + close(); plans: every socket call of the op "
        "(getaddrinfo, socket(), setsockopt, wrap_socket, settimeout x2, connect, sendall, recv, close) x every error kind, and "
        "depth-2 plans derived from the traces of depth-1 runs (so that later resolved addresses and re-connections are faulted "
        "too); servers: TCP with 1/2/3 resolved addresses (mixed families), UNIX path, TLS-wrapped TCP; configs: connect_timeout "
        "{None,1.5} x timeout {None,2.5}, no_delay, keepalive; on Client, PooledClient, HashClient. Non-trivial = a fault fired and a "
        "later call ran; distinct by (server kind, config, stack, op, warm?, fault sites and kinds).")
ASSUMPTIONS = [
    "getaddrinfo never returns an empty list (the real one raises instead)",
    "a close() that was attempted counts as closed even if the injected close raised",
    "address fallback is demanded for failures of socket creation (socket(), TCP_NODELAY setsockopt, wrap_socket), not of connect()",
]
MIN_NONTRIVIAL = {"quick": 5000, "thorough": 60000}
REQUIRED_COUNTERS = ["faults_fired", "sockets_in_ledger", "ledger_checks", "reconnects_observed", "timeout_checks"]
SHARDS = {"quick": 16, "thorough": 16}
TIMEOUT = {"quick": 900, "thorough": 7200}

SERVER_KINDS = {
    "tcp1": [("mc1", 11211, ["10.0.0.1"])],
    "tcp2": [("mc1", 11211, ["fd00::1", "10.0.0.1"])],
    "tcp3": [("mc1", 11211, ["10.0.0.1", "fd00::2", "10.0.0.3"])],
    "unix": ["/var/run/memcached.sock"],
}
CONFIGS = [
    {},
    {"connect_timeout": 1.5, "timeout": 2.5},
    {"connect_timeout": 1.5},
    {"timeout": 2.5, "no_delay": True},
    {"connect_timeout": 1.5, "timeout": 2.5, "no_delay": True, "keepalive": True},
    {"tls": True, "connect_timeout": 1.5, "timeout": 2.5},
    {"tls": True, "no_delay": True},
    {"ignore_exc": True, "timeout": 2.5},
]
OPS = [("set", ("k", b"v"), {"noreply": False}), ("get", ("h1",), {}), ("get_many", (["h1", "h2"],), {}),
       ("set", ("k", b"v"), {"noreply": True}), ("delete_many", (["h1", "m1"],), {"noreply": False}),
       # fire-and-forget commands of the third command helper, and the one command that ends the connection itself
       ("delete", ("h1",), {}), ("incr", ("num", 1), {"noreply": True}), ("quit", (), {})]
PROBES = [("get", ("h2",), {}), ("add", ("probe", b"p"), {"noreply": False})]
HARD = {"refused", "timeout", "unreach", "reset", "brokenpipe", "timeout_delivered", "eof", "oserror", "gaierror", "valueerror", "overflow", "eagain", "eintr_partial", "timeout_partial"}


def build_cfg(c):
    from pymemcache.client.base import KeepaliveOpts
    cfg = {k: v for k, v in c.items() if k != "keepalive"}
    if c.get("keepalive"):
        cfg["socket_keepalive"] = KeepaliveOpts(idle=35, intvl=8, cnt=5)
    return cfg


def execute(case):
    c = dict(case)
    c["cfg"] = build_cfg(case["cfg"])
    ops = list(case["ops"]) + [("close", (), {})]
    c["ops"] = ops
    return history.execute(c)


def hard_kind(k):
    if isinstance(k, tuple):
        return k[0] == "trunc"
    return k in HARD


def judge(case, obs):
    w, net = obs.world, obs.net
    cfg = case["cfg"]
    viol = []
    stack = w.stack
    fired = list(net.fired)
    faulted_calls = {f[0] for f in fired}
    fclass = history.fault_class({(f[0], f[1]): f[3] for f in fired})
    ftypes = "+".join(sorted({f[2] for f in fired})) or "nofault"
    tls = bool(cfg.get("tls"))
    ct, to = cfg.get("connect_timeout"), cfg.get("timeout")

    def v(key, msg):
        viol.append(("%s:%s:%s" % (key, stack, ftypes), msg + " [faults %s]" % fclass))

    # (a) + (c) + (f) alarms raised online
    for rec in obs.calls:
        for kind, detail in rec["alarms"]:
            if kind in ("TWO_OPEN_SOCKETS", "USE_AFTER_CLOSE", "RAW_IO_AFTER_WRAP"):
                v(kind, "during call %d %s: %s" % (rec["i"], rec["op"][0], detail))
    nclose = len(case["ops"])          # index of the final close()
    for s in net.socks:
        # (b) nothing left open at the end
        if not s.closed:
            v("LEAKED_SOCKET", "socket %d (created in call %r, owner %s) never closed; history %r"
              % (s.sid, s.created_call, type(s.owner).__name__, [h[0] for h in s.history]))
        # (c) no I/O in a later call on a socket that failed hard
        if s.fault_kind is not None and hard_kind(s.fault_kind):
            later = [h for h in s.history if h[0] in (fakenet.T_SENDALL, fakenet.T_RECV, fakenet.T_CONNECT)
                     and h[4] is not None and h[4] > s.fault_call]
            if later:
                v("USE_AFTER_FAILURE", "socket %d failed (%r) in call %r and was used again in call %r"
                  % (s.sid, s.fault_kind, s.fault_call, later[0][4]))
        # (e) timeouts in force
        for typ, detail, tmo, via, call in s.history:
            if typ == fakenet.T_CONNECT and tmo != ct and not (tmo == "unset" and ct is None and False):
                v("CONNECT_NOT_UNDER_CONNECT_TIMEOUT", "socket %d connect() with timeout %r in force, connect_timeout=%r" % (s.sid, tmo, ct))
            if typ in (fakenet.T_SENDALL, fakenet.T_RECV) and tmo != to:
                v("IO_NOT_UNDER_IO_TIMEOUT", "socket %d %s with timeout %r in force, timeout=%r" % (s.sid, typ, tmo, to))
            # (f) TLS: every connect / I/O through the wrapper
            if tls and typ in (fakenet.T_CONNECT, fakenet.T_SENDALL, fakenet.T_RECV) and not via and s.family != net.AF_UNIX:
                v("TLS_BYPASSED", "socket %d %s not through the TLS wrapper" % (s.sid, typ))
        # (h) options on sockets that carried traffic
        used = any(h[0] == fakenet.T_SENDALL for h in s.history)
        if used and s.family != net.AF_UNIX:
            if cfg.get("no_delay") and (net.IPPROTO_TCP, net.TCP_NODELAY, 1) not in s.opts:
                v("NODELAY_NOT_APPLIED", "socket %d used without TCP_NODELAY" % s.sid)
        if used and cfg.get("keepalive"):
            want = [(_socket.SOL_SOCKET, _socket.SO_KEEPALIVE, 1), (_socket.IPPROTO_TCP, _socket.TCP_KEEPIDLE, 35),
                    (_socket.IPPROTO_TCP, _socket.TCP_KEEPINTVL, 8), (_socket.IPPROTO_TCP, _socket.TCP_KEEPCNT, 5)]
            if any(o not in s.opts for o in want):
                v("KEEPALIVE_NOT_APPLIED", "socket %d used with options %r" % (s.sid, s.opts))
    # faulted socket must be closed by the time the faulted call returned
    for rec in obs.calls:
        i = rec["i"]
        for s in net.socks:
            if s.fault_call == i and s.fault_kind is not None and hard_kind(s.fault_kind):
                closes = [h for h in s.history if h[0] == fakenet.T_CLOSE]
                if not closes or closes[0][4] != i:
                    # closed later (or never): still open when the failed call returned
                    if rec["out"][0] == "exc" or cfg.get("ignore_exc"):
                        v("FAILED_SOCKET_LEFT_OPEN", "socket %d failed (%r) in call %d but was not closed before that call returned"
                          % (s.sid, s.fault_kind, i))
    # (d) after a failed call the next un-faulted call works on a fresh socket
    reconnects = 0
    for rec in obs.calls:
        i = rec["i"]
        if i in faulted_calls or i == 0 or i >= nclose:
            continue
        prev_failed = any(r["i"] < i and r["i"] in faulted_calls and r["out"][0] == "exc" for r in obs.calls)
        if not prev_failed:
            continue
        if any(j > i for j in faulted_calls) and False:
            continue
        if rec["out"][0] != "ret":
            v("NEXT_CALL_DOES_NOT_WORK", "call %d %s after a failed call raised %r" % (i, rec["op"][0], rec["out"][1:]))
        elif rec["new_socks"]:
            reconnects += 1
    # (g) address fallback
    if stack in ("client", "pooled") and fired and not isinstance(case["servers"][0], str):
        naddr = len(case["servers"][0][2])
        for ci in faulted_calls:
            fc = [f for f in fired if f[0] == ci]
            if all(f[2] in (fakenet.T_SOCKET, fakenet.T_SETSOCKOPT, fakenet.T_WRAP) for f in fc):
                # which resolved address did each fault hit?  = number of socket() calls of this call up to the fault
                evs = [e for e in net.events if e[2] == ci]
                addrs = set()
                creation = True
                for f in fc:
                    n_sock = sum(1 for e in evs if e[0] == fakenet.T_SOCKET and e[3] <= f[1])
                    addrs.add(n_sock - 1)
                    if f[2] == fakenet.T_SETSOCKOPT:
                        # only the TCP_NODELAY setsockopt belongs to socket creation; keepalive options come after settimeout
                        before = [e for e in evs if e[3] < f[1] and e[1] == _sid_of(evs, f[1])]
                        if any(e[0] == fakenet.T_SETTIMEOUT for e in before):
                            creation = False
                rec = obs.calls[ci]
                if creation and len(addrs) < naddr and rec["out"][0] != "ret" and ci < nclose:
                    v("NO_ADDRESS_FALLBACK", "socket creation failed for %d of %d resolved addresses, yet call %d %s raised %r"
                      % (len(addrs), naddr, ci, rec["op"][0], rec["out"][1:]))
    return viol, reconnects


def _sid_of(evs, idx):
    for e in evs:
        if e[3] == idx:
            return e[1]
    return None


def plans_depth2(case, plan1, obs1, rng, tier):
    """faults on socket calls that only exist once plan1 has fired (later addresses, cleanup, re-connection)"""
    out = []
    fired = obs1.net.fired
    if not fired:
        return out
    c, i0 = fired[0][0], fired[0][1]
    calls = driver.socket_calls_by_call(obs1.net)
    for call_id, lst in calls.items():
        if call_id is None or call_id < c:
            continue
        for idx, typ, sid in lst:
            if call_id == c and idx <= i0:
                continue
            if call_id > c + 1:
                continue
            kinds = fakenet.KINDS[typ]
            for kind in kinds:
                if kind in ("eintr1", "eintr3", "timeout_delivered"):
                    continue
                p = dict(plan1)
                p[(call_id, idx)] = kind
                out.append(p)
    if tier == "quick" and len(out) > 12:
        out = rng.sample(out, 12)
    return out


def run_group(res, stack, skind, cfg, op, warm, tier, rng):
    servers = SERVER_KINDS[skind]
    if cfg.get("tls") and skind == "unix":
        return
    ops = ([("get", ("h3",), {})] if warm else []) + [op] + PROBES
    case = {"stack": stack, "servers": servers, "cfg": cfg, "ops": ops, "faulted": 1 if warm else 0,
            "faults": {}, "seg": ("whole",), "skind": skind}
    obs0 = execute(case)
    viol, _ = judge(case, obs0)
    for key, msg in viol:
        res.violation("nofault:" + key, "fault-free history: " + msg, case)
    res.count("ledger_checks")
    res.case(None)
    plans, calls = history.single_fault_plans(case, obs0, tier, rng, reply_faults=False)
    queue = [(p, 1) for p in plans]
    while queue:
        plan, depth = queue.pop()
        c = dict(case)
        c["faults"] = plan
        o = execute(c)
        viol, reconnects = judge(c, o)
        fired = len(o.net.fired)
        res.count("faults_fired", fired)
        res.count("sockets_in_ledger", len(o.net.socks))
        res.count("ledger_checks")
        res.count("reconnects_observed", reconnects)
        res.count("timeout_checks", sum(1 for s in o.net.socks for h in s.history if h[0] in ("connect", "sendall", "recv")))
        res.count("depth%d_plans" % depth)
        for f in o.net.fired:
            res.count("site:" + f[2])
        later = any(r["i"] > max(k[0] for k in plan) and r["op"][0] != "close" for r in o.calls)
        nt = (skind, tuple(sorted(cfg.items())), stack, op[0], repr(op[2]), warm, tuple(sorted(plan.items()))) if fired and later else None
        res.case(nt, {"stack": stack, "server": skind, "cfg": cfg, "op": op[0], "warm": warm, "faults": repr(plan),
                      "outcomes": [r["out"][:2] for r in o.calls], "sockets": [(s.sid, s.close_count) for s in o.net.socks]}
                 if res.evaluations % 1499 == 0 else None)
        for key, msg in viol:
            res.violation(key, msg, c)
        if depth == 1 and fired:
            queue.extend((p, 2) for p in plans_depth2(case, plan, o, rng, tier))


def failover_close_audit(res, seed, count):
    """Clients inside a HashClient that has been through failures, evictions and revivals: close() (or quit() with every
    server healthy) must leave no socket open.  The histories are C13's random fail-over sequences; only the socket
    ledger is judged here."""
    from checks import c13
    rng = random.Random(seed)
    for i in range(count):
        nserv = rng.choice([2, 3])
        cfg = (nserv, rng.choice([0, 1, 2]), rng.random() < 0.5, rng.random() < 0.3, rng.random() < 0.25)
        seq = c13.random_sequence(rng, nserv)[:rng.randrange(6, 40)]
        closer = rng.choice(["close", "close", "quit", "disconnect_all"])
        case = ("failover-close", cfg, seq, closer)
        if not _failover_close_case(res, case):
            break


def forked_child(res):
    """A connected client is carried across fork() (modelled: os.getpid() answers with a new value from some point on): in
    the child too it has at most one open socket at a time, and what it stops using it closes"""
    for stack in ("client", "pooled", "hash", "hashpooled"):
        for skind in ("tcp1", "unix"):
            for cfg in ({}, {"connect_timeout": 1.5, "timeout": 2.5}):
                for ops in ([("get", ("h1",), {}), ("pidchange", (), {}), ("get", ("h1",), {}), ("set", ("k", b"v"), {"noreply": False})],
                            [("set", ("k", b"v"), {"noreply": False}), ("pidchange", (), {}), ("get_many", (["h1", "k"],), {}), ("pidchange", (), {}), ("get", ("k",), {})]):
                    case = {"stack": stack, "servers": SERVER_KINDS[skind], "cfg": cfg, "ops": ops + [("close", (), {})], "faulted": 0,
                            "faults": {}, "seg": ("whole",), "skind": skind}
                    o = execute(case)
                    viol, _ = judge(case, o)
                    res.count("ledger_checks")
                    res.count("forked_child_histories")
                    res.case(("forked", stack, skind, tuple(sorted(cfg.items())), len(ops)))
                    for key, msg in viol:
                        res.violation("forked-child:" + key, "after the pid changed: " + msg, case)


def failover_close_targeted(res):
    """the histories behind the add_server defect (fixes/0016), spelled out instead of left to the random sequences: a server
    uses up its retries, recovers just before the call that takes it out of rotation (that call still runs - and succeeds -
    on the old client object), is revived after dead_timeout (a new client object replaces the old one), then close()"""
    for nserv in (2, 3):
        for ra in (1, 2):
            for ign in (False, True):
                for pool in (False, True):
                    for opn in ("get", "set", "get_many", "set_many"):
                        for closer in ("close", "disconnect_all"):
                            seq = [("op", opn, 0), ("fail", 0, "refused"), ("op", opn, 0)]
                            for _ in range(ra):
                                seq += [("adv", 11), ("op", opn, 0)]
                            seq += [("ok", 0), ("adv", 11), ("op", opn, 0), ("op", opn, 0), ("adv", 101), ("op", opn, 0), ("op", opn, 1)]
                            if not _failover_close_case(res, ("failover-close", (nserv, ra, ign, pool, False), seq, closer)):
                                return
                            res.count("targeted_failover_close_histories")


def _failover_close_case(res, case):
    from checks import c13
    _, cfg, seq, closer = case
    sim = c13.Sim(*cfg)
    try:
        for ev in seq:
            sim.event(tuple(ev))
        if closer == "quit":
            for srv in sim.servers.values():
                srv.health = "up"
        sim.net.begin_call("final-" + closer)
        try:
            getattr(sim.hc, closer)()
        except OSError:
            pass
        sim.net.end_call()
        res.count("failover_histories_closed")
        res.count("sockets_audited_after_failover", len(sim.net.socks))
        left = [s for s in sim.net.socks if not s.closed]
        res.case(("failover-close", cfg, len(seq), closer, len(sim.net.socks)) if sim.stats["failed_contacts"] else None)
        if left:
            res.violation("socket-left-open-after-HashClient.%s()" % closer,
                          "after %d fail-over events (servers,retry_attempts,ignore_exc,pooling,unix=%r) %s() left %d of %d sockets open "
                          "(to %r); rotation %r" % (len(seq), cfg, closer, len(left), len(sim.net.socks),
                                                     sorted({str(s.addr_key()) for s in left}), sorted(sim.rotation())), case)
            return False
        return True
    finally:
        sim.close()


def groups(tier):
    out = []
    for stack in ("client", "pooled", "hash", "hashpooled"):
        for skind in SERVER_KINDS:
            for ci, cfg in enumerate(CONFIGS):
                for oi, op in enumerate(OPS):
                    for warm in (0, 1):
                        if tier == "quick":
                            h = common.h64((stack, skind, ci, oi, warm))
                            if stack != "client" and h % 5 != 0:
                                continue
                            if stack == "client" and h % 2 != 0 and not (skind in ("tcp2", "tcp3") and warm == 0 and oi == 0):
                                continue
                        out.append((stack, skind, cfg, op, warm))
    return out


def shard(tier, seed, idx, n):
    res = common.Result()
    gs = groups(tier)
    for gi, g in enumerate(gs):
        if gi % n != idx:
            continue
        run_group(res, *g, tier, random.Random(seed * 7919 + gi))
    failover_close_audit(res, seed * 977 + idx, 40 if tier == "quick" else 600)
    if idx == 0:
        failover_close_targeted(res)
    if idx == 1 % n:
        forked_child(res)
    res.extra["groups_total"] = len(gs) if idx == 0 else 0
    res.extra["exhaustive"] = True
    res.extra["exhaustive_part"] = "depth-1 fault plans for every group; depth-2 plans exhaustive in thorough, sampled (12 per depth-1 plan) in quick"
    return res


def replay(case):
    res = common.Result()
    if isinstance(case, (list, tuple)) and case and case[0] == "failover-close":
        _failover_close_case(res, (case[0], tuple(case[1]), [tuple(e) for e in case[2]], case[3]))
        for c in REQUIRED_COUNTERS:
            res.count(c)
        res.nontrivial.update({1, 2})
        return res
    o = execute(case)
    viol, _ = judge(case, o)
    res.case(("replay",))
    for key, msg in viol:
        res.violation(key, msg, case)
    print("outcomes:", [r["out"] for r in o.calls])
    for s in o.net.socks:
        print("socket", s.sid, "owner", type(s.owner).__name__, "closed" if s.closed else "OPEN", [(h[0], h[2]) for h in s.history])
    for c in REQUIRED_COUNTERS:
        res.count(c)
    return res
