"""C13 - HashClient failover: bounded probing, eviction, rerouting, recovery.

Monitor: the FakeNet contact log with virtual timestamps (every connect() attempt, and the
first exchange of a call on a connection established earlier), per-server health scripts, the
original ownership table, and which server each command actually reached.  An online checker
decides after every event: contact-rate windows per run of failed contacts, the evidence
required before an eviction, no bypass of servers that never failed, service while a server is
out, which exceptions may escape (identity of the injected exception object), and - in an
epilogue - recovery of the original placement within 2.5 dead_timeout of traffic.
Exploration: all event sequences up to a depth bound over a reduced alphabet (by prefix
replay), plus seeded random long sequences over the full alphabet."""
import errno
import itertools
import random

from vk import common
from vk.fakenet import FakeNet
from vk.refserver import RefServer, VClock

PROPERTY = "C13"
LEVEL = "exploration"
RULE = ("event sequences over {op in {get,set,setget,get_many,set_many} on a key owned by server i, advance by 1/11/101 virtual s, "
        "server i starts failing (refused, reset) / recovers}: all sequences of length 5 (thorough 6) for 2 servers x retry_attempts "
        "{0,1,2} x ignore_exc x pooling (retry_timeout 10, dead_timeout 100); seeded random sequences of length 20..80 over the full "
        "alphabet (also delete/incr/touch/delete_many, advances 1/10/11/50/100/101/201, connect timeouts, 3 servers, server 0 as a UNIX socket, a user-supplied hasher offering only the documented three methods); a sample of "
        "leaves is extended by the recovery epilogue. Non-trivial = >=1 failed contact and a later key-addressed op on that "
        "server's key; distinct by the abstract-state path (rotation, failed/dead bookkeeping ages, health).")
ASSUMPTIONS = [
    "a server is 'failing' while every exchange with it raises an OSError (refused / timed-out connects, resets on established connections)",
    "a contact is a connect() attempt or the first exchange of a call on an already established connection; contacts are partitioned into runs ended by a successful contact",
    "windows are closed intervals of virtual time; retry_timeout=10 < dead_timeout=100",
    "private attributes (_failed_clients, _dead_clients, _last_dead_check_time) are read only to count distinct abstract states, never for a verdict",
]
MIN_NONTRIVIAL = {"quick": 3000, "thorough": 30000}
REQUIRED_COUNTERS = ["failed_contacts", "evictions_observed", "reroutes_observed", "revivals_observed", "recovery_epilogues",
                     "window_checks", "failed_contacts_at_socket_creation"]
SHARDS = {"quick": 16, "thorough": 16}
TIMEOUT = {"quick": 1200, "thorough": 7200}

RT, DT = 10, 100
_KEYS_CACHE = {}


def owned_keys(nodes, per=2):
    """keys whose original owner (under the library's own default hasher on the full set) is each node"""
    t = (tuple(nodes), per)
    if t not in _KEYS_CACHE:
        from pymemcache.client.rendezvous import RendezvousHash
        h = RendezvousHash()
        for n in nodes:
            h.add_node(n)
        out = {n: [] for n in nodes}
        i = 0
        while any(len(v) < per for v in out.values()):
            k = ("key%d" if per <= 2 else "bulk%d") % i
            i += 1
            o = h.get_node(k)
            if len(out[o]) < per:
                out[o].append(k)
        _KEYS_CACHE[t] = out
    return _KEYS_CACHE[t]


class ContractOnlyHasher:
    """a user-supplied hasher offering exactly the documented contract (add_node, remove_node, get_node) and nothing else;
    placement is the default one, so ownership tables stay valid.  The harness reads the rotation through a name the library
    cannot know."""

    def __init__(self):
        from pymemcache.client.rendezvous import RendezvousHash
        self.__dict__["_h"] = RendezvousHash()

    def add_node(self, node):
        self._h.add_node(node)

    def remove_node(self, node):
        self._h.remove_node(node)

    def get_node(self, key):
        return self._h.get_node(key)

    def harness_rotation(self):
        return list(self._h.nodes)


class Sim:
    def __init__(self, nserv, retry_attempts, ignore_exc, pooling, unix=False, own_hasher=False):
        import pymemcache.client.hash as hashmod
        self.hashmod = hashmod
        self.clock = VClock(1_000_000.9)          # a clock with a fractional part (truncating it must not shorten a window)
        self.net = FakeNet()
        self.net.clock = self.clock
        self.multi = unix == "multi"
        self.net.trace_enabled = False
        self.names = []
        self.servers = {}
        specs = []
        self.addr2name = {}
        for i in range(nserv):
            host = "mc%d" % i
            if unix == "caps":
                # host names with capitals; all but the first server join through the public add_server(host, port)
                host = "Cache-%d.Example" % i
                self.servers["%s:11211" % host] = self.net.add_server(host, 11211, RefServer(self.clock, name=host))
                self.names.append("%s:11211" % host)
                specs.append((host, 11211))
                continue
            if unix == "multi":
                # every server name resolves to two addresses (IPv6 first, then IPv4 - a dual-stack host): one attempt on a
                # server that is down is still one contact
                srv_ = self.net.add_server(host, 11211, RefServer(self.clock, name=host), ips=["2001:db8::%d" % (i + 1), "10.0.7.%d" % (i + 1)])
                self.servers["%s:11211" % host] = srv_
                self.names.append("%s:11211" % host)
                specs.append((host, 11211))
                continue
            if unix and i == 0:
                # server 0 is a UNIX socket: its identity is a str all the way through the fail-over bookkeeping
                path = "/var/run/memcached/mc0.sock"
                self.servers[path] = self.net.add_unix(path, RefServer(self.clock, name=path))
                self.names.append(path)
                specs.append(path)
                self.addr2name[path] = path
                continue
            self.servers["%s:11211" % host] = self.net.add_server(host, 11211, RefServer(self.clock, name=host))
            self.names.append("%s:11211" % host)
            specs.append((host, 11211))
        for (h, p), res in self.net.dns.items():
            for fam, sa in res:
                for n in self.names:
                    if n.split(":")[0] == h:
                        self.addr2name[sa] = n

        self._restore = [self.clock.patch_module(hashmod)]
        import pymemcache.pool as poolmod
        self._restore.append(self.clock.patch_module(poolmod))
        self.ra, self.ign, self.pooling = retry_attempts, ignore_exc, pooling
        extra = {"hasher": ContractOnlyHasher} if own_hasher else {}
        late = specs[1:] if unix == "caps" else []
        self.hc = hashmod.HashClient(specs[:1] if late else specs, socket_module=self.net, retry_attempts=retry_attempts, retry_timeout=RT,
                                     dead_timeout=DT, ignore_exc=ignore_exc, use_pooling=pooling, default_noreply=False,
                                     timeout=1.0, connect_timeout=1.0, **extra)
        for li, (h_, p_) in enumerate(late):
            if li % 2 == 0:
                self.hc.add_server(h_, p_)
            else:
                self.hc.add_server((h_, p_))
        self.keys = owned_keys(self.names)
        self.owner = {k: n for n, ks in self.keys.items() for k in ks}
        # monitor state
        self.contacts = {n: [] for n in self.names}      # (time, ok)
        self.run = {n: [] for n in self.names}           # failed contact times of the current run
        self.ever_failed = set()
        self.since = {}                                   # server -> index into contacts[] where its current stay in rotation began
        self.out = set()                                  # servers observed out of rotation
        self.viol = []
        self.stats = {"failed_contacts": 0, "evictions": 0, "reroutes": 0, "revivals": 0, "window_checks": 0,
                      "max_in_retry_window": 0, "max_in_dead_window": 0, "escaped_ok": 0}
        self.callno = 0
        self.vcount = 0
        self.states = []

    def rotation(self):
        h = self.hc.hasher
        return h.harness_rotation() if isinstance(h, ContractOnlyHasher) else h.nodes

    def close(self):
        for r_ in self._restore:
            r_()

    # -- abstract state (evidence only)
    def abstract(self):
        hc = self.hc
        now = self.clock.now()
        try:
            f = tuple(sorted((str(k), v["attempts"], min(int(now - v["failed_time"]), RT + 1)) for k, v in hc._failed_clients.items()))
            d = tuple(sorted((str(k), min(int(now - t), DT + 1)) for k, t in hc._dead_clients.items()))
            l = min(int(now - hc._last_dead_check_time), DT + 1)
        except Exception:
            f = d = l = None
        return (tuple(sorted(self.rotation())), f, d, l, tuple(s.health for s in self.servers.values()))

    def v(self, key, msg):
        self.viol.append((key, msg))

    # -- events
    def event(self, ev):
        kind = ev[0]
        if kind == "adv":
            self.clock.advance(ev[1])
            return
        if kind == "fail":
            # a dual-stack name fails socket() once per address within one attempt: that is one contact, so the
            # "no socket can be created" kind is driven on single-address servers only
            self.servers[self.names[ev[1]]].health = "refused" if (ev[2] == "nosocket" and self.multi) else ev[2]
            self.ever_failed.add(self.names[ev[1]])
            return
        if kind == "ok":
            self.servers[self.names[ev[1]]].health = "up"
            return
        self.op(ev[1], ev[2], ev[3] if len(ev) > 3 else 0)

    def op(self, name, si, ki=0):
        hc = self.hc
        S = self.names[si % len(self.names)]
        key = self.keys[S][ki % len(self.keys[S])]
        allkeys = [k for n in self.names for k in self.keys[n]]
        self.callno += 1
        call = self.callno
        net = self.net
        healthy_before = {n for n, s_ in self.servers.items() if s_.health == "up"}
        marks = {n: len(s.cmdlog) for n, s in self.servers.items()}
        c0 = len(net.contacts)
        r0 = len(net.raised)
        net.begin_call(call)
        sub = [0]

        def step():
            # every library call of a composite operation gets its own id, so that contacts can be told apart
            sub[0] += 1
            net.begin_call((call, sub[0]))
        exc = None
        ret = None
        uniq = b"%d" % call
        try:
            if name == "get":
                ret = hc.get(key)
            elif name == "set":
                ret = hc.set(key, uniq)
            elif name == "setget":
                step()
                r1 = hc.set(key, uniq)
                step()
                ret = (r1, hc.get(key))
            elif name == "delete":
                ret = hc.delete(key)
            elif name == "incr":
                ret = hc.incr(key, 1)
            elif name == "touch":
                ret = hc.touch(key, 0)
            elif name == "get_many":
                ret = hc.get_many(allkeys)
            elif name == "get_many_big":
                # a thousand and more keys of one server in one call (a client that slices large per-server batches must still
                # treat the server's failure once)
                big = owned_keys(self.names, per=1100)[S][:1100]
                ret = hc.get_many(list(dict.fromkeys(big + allkeys)))
            elif name == "set_many":
                ret = hc.set_many({k: uniq for k in allkeys})
            elif name == "delete_many":
                ret = hc.delete_many(allkeys)
            elif name == "set_many_refused":
                # one value is over the item size limit: the server answers SERVER_ERROR (a memcached error, not a failure of
                # the server); with ignore_exc nothing may escape, without it only that memcached error
                ret = hc.set_many({key: b"x" * ((1 << 20) + 1), allkeys[0]: uniq})
            elif name == "setget_pair":
                pk = (key, "pbare-%d" % (call % 7))
                step()
                r1 = hc.set(pk, uniq)
                step()
                ret = (r1, hc.get(pk))
            elif name == "getmany_vs_get":
                # the multi-key read and the per-key reads agree while nothing changes in between
                c2 = len(net.contacts)
                rot0 = sorted(self.rotation())
                step()
                many = hc.get_many(allkeys)
                singles = {}
                for k in allkeys:
                    step()
                    singles[k] = hc.get(k)
                quiet = all(ok for (_, _, ok, _) in net.contacts[c2:]) and sorted(self.rotation()) == rot0
                ret = ("getmany", len(many))
                if quiet and all(s_.health == "up" for s_ in self.servers.values()):
                    want = {k: v_ for k, v_ in singles.items() if v_ is not None}
                    if many != want:
                        self.v("get_many-differs-from-per-key-gets",
                               "all servers healthy: get_many -> %r but the per-key gets -> %r" % (sorted(many), sorted(want)))
            elif name in ("setmanyget", "setmanyget_pairs"):
                # what set_many does not report as failed must be found by an immediately following get
                if name == "setmanyget":
                    ks = list(allkeys)
                else:
                    ks = [(self.keys[n][t % len(self.keys[n])], "bare-%d-%d" % (j, t))
                          for j, n in enumerate(self.names) for t in range(4)]
                vals = {k: uniq + b"-%d" % j for j, k in enumerate(ks)}
                m2 = {n: len(s.cmdlog) for n, s in self.servers.items()}
                c2 = len(net.contacts)
                rot0 = sorted(self.rotation())
                step()
                failed = hc.set_many(vals)
                failed_set = set(failed)
                rot1 = set(self.rotation())
                # where did each key's set go?  What was written to a server that this very call took out of rotation is not
                # promised to later reads (same rule as for set-then-get); everything else is.
                setdest = {}
                for n_, s_ in self.servers.items():
                    for c_ in s_.cmdlog[m2[n_]:]:
                        if c_.verb == b"set":
                            for k_ in c_.keys:
                                setdest.setdefault(k_.decode(), set()).add(n_)
                for k in ks:
                    bare_ = k[1] if isinstance(k, tuple) else k
                    if bare_ not in failed_set and k not in failed_set and not setdest.get(bare_):
                        self.v("set_many-reports-stored-but-sent-nothing:%s" % name,
                               "set_many did not list %r as failed (failed list %r) although no set command for it reached any server"
                               % (k, sorted(map(repr, failed))[:6]))
                        break
                ks = [k for k in ks if all(n_ in rot1 and self.servers[n_].health == "up"
                                           for n_ in setdest.get(k[1] if isinstance(k, tuple) else k, {"<none>"}))]
                set_contacted_failing = any(not ok for (_, _, ok, _) in net.contacts[c2:])
                ret = ("setmany", sorted(map(repr, failed)))
                for k in ks:
                    bare = k[1] if isinstance(k, tuple) else k
                    if bare in failed_set or k in failed_set:
                        continue
                    m3 = {n: len(s.cmdlog) for n, s in self.servers.items()}
                    c3 = len(net.contacts)
                    step()
                    got = hc.get(k)
                    dest = [n for n, s in self.servers.items() if len(s.cmdlog) > m3[n]]
                    bad_contact = any(not ok for (_, _, ok, _) in net.contacts[c3:])
                    if len(dest) == 1 and self.servers[dest[0]].health == "up" and not bad_contact and got != vals[k]:
                        self.v("set_many-success-not-found-by-get:%s" % name,
                               "set_many reported %r as stored (failed list %r) but get(%r) on healthy %s returned %r (expected %r)"
                               % (k, failed, k, dest[0], got, vals[k]))
                        break
            else:
                raise ValueError(name)
        except Exception as e:
            exc = e
        net.end_call()
        now = self.clock.now()
        healthy = {n for n, s in self.servers.items() if s.health == "up"}
        # ---- contacts of this call
        contacted_failing = set()
        for (t, addr, ok, c) in net.contacts[c0:]:
            n = self.addr2name.get(addr)
            if n is None:
                continue
            # an exchange that reached the server but ended in a memcached protocol error (not the client-side
            # 'all servers down', which is raised for some other key of a multi-key call)
            # Decided from the server's own answer to the commands of that (sub-)call, because ignore_exc=True swallows
            # the exception while the library keeps its failure record all the same.
            errs = [c_ for c_ in self.servers[n].cmdlog[marks[n]:] if c_.tag == c and c_.reply
                    and c_.reply.split(b" ")[0].rstrip(b"\r\n") in (b"ERROR", b"CLIENT_ERROR", b"SERVER_ERROR")]
            neutral = ok and (bool(errs) or (exc is not None and not isinstance(exc, OSError)
                                             and not (type(exc).__name__ == "MemcacheError")))
            self.contacts[n].append((t, None if neutral else ok, c))      # c: the (sub-)call that made the contact
            if neutral:
                # the server answered (with an error line): it was not failing at that moment.  Whether the library forgets
                # an earlier failure now depends on the path (it does when it swallows the memcached error itself, as
                # set_many under ignore_exc does; it does not when the error passes through as an exception) - the
                # statement allows either, so the contact ends the run for the rate windows and is skipped (neither
                # failure nor success) in the eviction evidence below
                self.run[n] = []
                continue
            if ok:
                self.run[n] = []
            else:
                contacted_failing.add(n)
                self.stats["failed_contacts"] += 1
                self.run[n].append(t)
                self.stats["window_checks"] += 1
                in_rt = sum(1 for x in self.run[n] if x >= t - RT)
                in_dt = sum(1 for x in self.run[n] if x >= t - DT)
                self.stats["max_in_retry_window"] = max(self.stats["max_in_retry_window"], in_rt)
                self.stats["max_in_dead_window"] = max(self.stats["max_in_dead_window"], in_dt)
                if in_rt > 2:
                    self.v("contact-rate:retry-window:%s" % name,
                           "failing server %s contacted %d times within %ds (times %r) by key-addressed calls; last by %s"
                           % (n, in_rt, RT, [x for x in self.run[n] if x >= t - RT], name))
                if in_dt > self.ra + 2:
                    self.v("contact-rate:dead-window:%s" % name,
                           "failing server %s contacted %d times within %ds (retry_attempts=%d allows %d): %r; last by %s"
                           % (n, in_dt, DT, self.ra, self.ra + 2, [x for x in self.run[n] if x >= t - DT], name))
        # ---- where did the commands go?
        reached = {}
        times = {}
        for n, s in self.servers.items():
            for c in s.cmdlog[marks[n]:]:
                for k in c.keys:
                    reached.setdefault(k.decode(), set()).add(n)
                    times[(c.verb, k)] = times.get((c.verb, k), 0) + 1
        # every key-addressed command is issued at most once per key and call (whatever the retry state)
        dup = [(vb, k, n_) for (vb, k), n_ in times.items() if n_ > 1]
        if dup and name != "getmany_vs_get":
            self.v("command-issued-twice:%s" % name, "%s sent %r (verb, key, times) in one call" % (name, dup[:3]))
        involved = [key] if name not in ("get_many", "set_many", "delete_many", "setmanyget", "getmany_vs_get", "get_many_big") else allkeys
        if name == "set_many_refused":
            involved = []
        if name == "setget_pair":
            involved = []
        if name == "setmanyget_pairs":
            involved = []          # routed by server key: ownership of the bare keys is not what placement assigns
        for k in involved:
            o = self.owner[k]
            dest = reached.get(k, set())
            elsewhere = dest - {o}
            if elsewhere:
                if o not in self.ever_failed:
                    self.v("bypassed-server-that-never-failed", "key %r of %s (never failed) was sent to %r during %s"
                           % (k, o, sorted(elsewhere), name))
                self.stats["reroutes"] += 1
                if o not in self.out:
                    # observed eviction: the contacts before this call must justify it
                    self.out.add(o)
                    self.stats["evictions"] += 1
                    allc = [ok for (t, ok, cno) in self.contacts[o]]
                    if self.ra > 0 and allc:
                        allc = allc[:-1]     # the evicting attempt's own contact, whatever its outcome (see below)
                    hist = [ok for ok in allc if ok is not None]
                    # With retries configured the eviction is decided before the evicting attempt contacts the server, from
                    # what earlier attempts saw: the last contact (that attempt's own, failed or not) is not evidence.  With retry_attempts=0 the failing call itself evicts, so its contact counts.
                    # Exchanges that reached the server but ended in a memcached error are neither failures nor the kind
                    # of success after which the library forgets a failure (recorded as None and skipped).
                    tail = list(hist)
                    if self.ra == 0 and tail and tail[-1]:
                        tail.pop()
                    nf = 0
                    while tail and not tail[-1]:
                        nf += 1
                        tail.pop()
                    need = 1 if self.ra == 0 else 2
                    if nf < need:
                        self.v("evicted-without-enough-failures",
                               "%s taken out of rotation (key %r went to %r) although its contacts end with only %d consecutive "
                               "failure(s) (retry_attempts=%d): %r" % (o, k, sorted(elsewhere), nf, self.ra, hist[-8:]))
            elif dest == {o} and o in self.out:
                self.out.discard(o)
                self.stats["revivals"] += 1

        # ---- exceptions
        rotation = list(self.rotation())
        if exc is not None:
            from pymemcache.exceptions import MemcacheError
            injected = net.raised[r0:]
            if self.ign:
                self.v("escapes-despite-ignore_exc:%s:%s" % (name, type(exc).__name__),
                       "%s raised %r with ignore_exc=True" % (name, exc))
            elif any(exc is e for e in injected):
                self.stats["escaped_ok"] += 1
            elif type(exc) is MemcacheError and "All servers" in str(exc) and not rotation:
                self.stats["escaped_ok"] += 1
            elif isinstance(exc, MemcacheError) and type(exc) is not MemcacheError:
                self.stats["escaped_ok"] += 1        # a memcached error raised from a server's own bytes
            else:
                self.v("foreign-exception-escapes:%s:%s" % (name, type(exc).__name__),
                       "%s raised %r which is neither the failing server's own error nor 'all servers down' (rotation %r, "
                       "failing contacted %r)" % (name, exc, rotation, sorted(contacted_failing)))
        # ---- service while a server is out: ops whose commands only reached healthy servers must work
        if exc is None and name == "setget_pair":
            bare = "pbare-%d" % (call % 7)
            dest = reached.get(bare, set())
            verbs = sorted(c.verb for n in dest for c in self.servers[n].cmdlog[marks[n]:] if bare.encode() in c.keys)
            rot_now = set(self.rotation())
            setsrv = [n for n in self.servers for c in self.servers[n].cmdlog[marks[n]:] if c.verb == b"set" and bare.encode() in c.keys]
            # the set went to a healthy server that is still in rotation: the get of the same pair must find it there
            if len(setsrv) == 1 and setsrv[0] in rot_now and self.servers[setsrv[0]].health == "up" and not contacted_failing \
                    and ret[0] is True and ret[1] != uniq:
                self.v("pair-set-then-get-fails", "set(%r) went to %s (healthy, in rotation) but get returned %r; commands reached %r"
                       % ((key, bare), setsrv[0], ret[1], sorted(dest)))
        if exc is None and name == "setget":
            dest = reached.get(key, set())
            # demanded only when both commands actually reached the same healthy server (an eviction decided by the
            # set itself may legitimately send the following get elsewhere)
            verbs = sorted(c.verb for n in dest for c in self.servers[n].cmdlog[marks[n]:] if key.encode() in c.keys)
            if dest and dest <= healthy and len(dest) == 1 and not contacted_failing and verbs == [b"get", b"set"]:
                if ret != (True, uniq):
                    self.v("rerouted-set-then-get-fails", "set+get of %r on healthy %r returned %r" % (key, sorted(dest), ret))
        if exc is not None and not contacted_failing and rotation and not self.ign:
            pass        # covered by foreign-exception-escapes above


def run_sequence(res, cfg, seq, epilogue=False, label="exh"):
    nserv, ra, ign, pooling = cfg[:4]
    sim = Sim(nserv, ra, ign, pooling, *cfg[4:])
    path = []
    try:
        for ev in seq:
            sim.event(ev)
            path.append(sim.abstract())
        if epilogue:
            for s in sim.servers.values():
                s.health = "up"
            allkeys = [k for n in sim.names for k in sim.keys[n]]
            placed = {}
            steps = int((2 * DT + DT // 2) / (DT // 10))
            for step in range(steps + 1):
                sim.clock.advance(DT // 10)
                for si, n in enumerate(sim.names):
                    for ki in range(len(sim.keys[n])):
                        sim.op("get", si, ki)
            # final placement probe
            for si, n in enumerate(sim.names):
                for ki, k in enumerate(sim.keys[n]):
                    marks = {m: len(s.cmdlog) for m, s in sim.servers.items()}
                    sim.op("get", si, ki)
                    dest = [m for m, s in sim.servers.items() if len(s.cmdlog) > marks[m]]
                    if dest != [n]:
                        sim.v("placement-not-recovered", "after %.0fs of healthy traffic key %r is served by %r, original owner %s"
                              % (2.5 * DT, k, dest, n))
            res.count("recovery_epilogues")
    finally:
        sim.close()
    st = sim.stats
    res.count("failed_contacts", st["failed_contacts"])
    res.count("evictions_observed", st["evictions"])
    res.count("reroutes_observed", st["reroutes"])
    res.count("revivals_observed", st["revivals"])
    res.count("window_checks", st["window_checks"])
    res.count("failed_contacts_at_socket_creation", sum(1 for e in sim.net.raised if getattr(e, "errno", None) == errno.EAFNOSUPPORT))
    res.count("exceptions_escaped_legitimately", st["escaped_ok"])
    res.maximum("max_failed_contacts_in_retry_window", st["max_in_retry_window"])
    res.maximum("max_failed_contacts_in_dead_window", st["max_in_dead_window"])
    case = (cfg, tuple(seq), epilogue)
    for key, msg in sim.viol[:3]:
        res.violation("%s:ra=%d:%s" % (key, ra, "ignore_exc" if ign else "raise"), msg + " ; cfg(servers,retry_attempts,ignore_exc,pooling)=%r" % (cfg,), case)
    nontrivial = st["failed_contacts"] > 0 and any(e[0] == "op" for e in seq[1:])
    res.case((cfg, tuple(path)) if nontrivial else None,
             {"cfg": {"servers": nserv, "retry_attempts": ra, "ignore_exc": ign, "pooling": pooling}, "events": [repr(e) for e in seq][:12],
              "failed_contacts": st["failed_contacts"], "evictions": st["evictions"], "reroutes": st["reroutes"]}
             if res.evaluations % 4999 == 0 else None)
    return path


def reduced_alphabet():
    A = []
    for name in ("get", "set", "setget", "get_many", "set_many", "setmanyget"):
        A.append(("op", name, 0))
    A += [("op", "get", 1), ("op", "setget", 1)]
    A += [("adv", 1), ("adv", 11), ("adv", 101)]
    A += [("fail", 0, "refused"), ("fail", 0, "reset"), ("ok", 0), ("fail", 1, "refused"), ("ok", 1)]
    return A


def random_sequence(rng, nserv):
    n = rng.randint(20, 80)
    seq = []
    for _ in range(n):
        c = rng.random()
        if c < 0.55:
            seq.append(("op", rng.choice(["get", "set", "setget", "delete", "incr", "touch", "get_many", "set_many", "delete_many",
                                          "setmanyget", "setmanyget_pairs", "setmanyget_pairs", "setget_pair", "setget_pair",
                                          "getmany_vs_get"] + (["set_many_refused"] if rng.random() < 0.15 else [])),
                        rng.randrange(nserv), rng.randrange(2)))
        elif c < 0.8:
            seq.append(("adv", rng.choice([1, 1, 10, 11, 11, 50, 100, 101, 201, 0.4, 9.5, 10.2])))
        elif c < 0.92:
            seq.append(("fail", rng.randrange(nserv), rng.choice(["refused", "timeout", "reset", "reset_on_recv", "nosocket"])))
        else:
            seq.append(("ok", rng.randrange(nserv)))
    return seq


def shard(tier, seed, idx, n):
    res = common.Result()
    A = reduced_alphabet()
    depth = 5 if tier == "quick" else 6
    cfgs = [(2, ra, ign, pool) for ra in (0, 1, 2) for ign in (False, True) for pool in (False, True)] + [(2, ra, ign, False, "multi") for ra in (0, 1, 2) for ign in (False, True)]
    states = set()
    work = 0
    # sequences must start with a failure event to be interesting; enumerate all with the first failure anywhere
    for seq in itertools.product(A, repeat=depth):
        if not any(e[0] == "fail" for e in seq[:2 if tier == "quick" else 3]):
            continue        # healthy prefixes only add benign traffic; shorter suffixes are covered by other sequences
        work += 1
        if work % n != idx:
            continue
        cfg = cfgs[(work // n) % len(cfgs)]
        path = run_sequence(res, cfg, seq, epilogue=(work // n) % 40 == 0)
        states.update(path)
    # targeted: a server stays down while the same multi-key write is repeated across the retry / give-up / dead phases
    if True:
        for nserv in (2, 3):
            for ra in (0, 1, 2):
                for ign in (False, True):
                    for pool, unix, own in ((False, False, False), (True, False, False), (False, True, False), (False, False, True),
                                            (False, "multi", False), (False, "caps", False)):
                        for bad in range(nserv):
                            for kind in ("refused", "reset", "reset_on_recv", "nosocket"):
                                for opn in ("setmanyget_pairs", "setmanyget", "set_many", "setget_pair", "getmany_vs_get", "get", "get_many_big"):
                                    work += 1
                                    if work % n != idx:
                                        continue
                                    seq = [("op", opn, 0), ("fail", bad, kind)]
                                    if kind == "reset_on_recv" and (pool or unix or own or opn in ("setmanyget_pairs", "getmany_vs_get")):
                                        continue
                                    if opn == "get_many_big" and (unix or own or kind == "reset"):
                                        continue
                                    if kind == "nosocket" and (unix == "multi" or own or opn in ("setmanyget", "getmany_vs_get")):
                                        continue    # dual-stack names: socket() fails once per address, which is one attempt
                                    if unix == "caps" and (kind == "reset_on_recv" or opn in ("setmanyget_pairs", "getmany_vs_get", "setget_pair")):
                                        continue
                                    gap = 9.5 if (opn, kind) in (("get", "refused"), ("set_many", "reset")) else 11
                                    for step in range(6):
                                        seq += [("op", opn, bad), ("adv", gap)]
                                    seq += [("ok", bad), ("adv", 101), ("op", opn, bad), ("adv", 101), ("op", opn, bad)]
                                    path = run_sequence(res, (nserv, ra, ign, pool, unix, own), seq, epilogue=False, label="targeted")
                                    states.update(path)
                                    res.count("targeted_sequences")
    rng = random.Random(seed * 15485863 + idx)
    count = 60 if tier == "quick" else 1500
    for i in range(count):
        nserv = rng.choice([2, 3])
        cfg = (nserv, rng.choice([0, 1, 2]), rng.random() < 0.5, rng.random() < 0.3,
               rng.choice((False, False, False, False, True, True, "multi", "multi", "caps")), rng.random() < 0.25)
        path = run_sequence(res, cfg, random_sequence(rng, nserv), epilogue=True, label="rand")
        states.update(path)
        res.count("random_sequences")
    res.extra["states"] = len(states)
    res.extra["exhaustive"] = True
    res.extra["exhaustive_part"] = ("all event sequences of length %d over a %d-event alphabet that contain a failure before the last "
                                    "event, each under one of 12 configurations (round-robin)" % (depth, len(A)))
    return res


def replay(case):
    res = common.Result()
    cfg, seq, epi = case
    run_sequence(res, tuple(cfg), list(seq), epilogue=epi)
    for c in REQUIRED_COUNTERS:
        res.count(c)
    res.nontrivial.update({1, 2})
    return res
