"""C09 - a failed pooled connection is discarded and pool capacity is conserved.

Monitor: socket identity in the FakeNet ledger + pool.used/pool.free (public properties)
after every call + a virtual pool clock.  Offline checker over single-threaded histories of
PooledClient operations with per-operation faults and idle gaps."""
import ast
import random

from vk import catalogue, common, driver, fakenet, history

PROPERTY = "C09"
LEVEL = "fault_enumeration"
RULE = ("(1) systematic: [warm-up] + every catalogue op x every socket call of it x every fault kind + probes, for pool_idle_timeout "
        "{0,5} x max_pool_size {1,2,None} x ignore_exc; (2) idle-gap grid: op, gap, op, gap, op with gaps {0,T-1,T,T+1,10T}; "
        "(3) seeded random histories of 2..8 ops with per-op fault choice (none or any C01 fault at the first socket call of a "
        "type) and random gaps, incl. quit(). Non-trivial = >=1 fault fired or >=1 gap >= T, and a later call ran; distinct by "
        "(config, op sequence, fault sites/kinds, gap classes).")
ASSUMPTIONS = [
    "after a call that failed with an input error (nothing wrong with the connection) both reuse and reopen are accepted",
    "a 'connection' is a socket: releasing instead of destroying a client whose socket is already closed is not a violation",
    "idle exactly pool_idle_timeout counts as not yet expired (the statement says 'idle longer than')",
]
MIN_NONTRIVIAL = {"quick": 8000, "thorough": 100000}
REQUIRED_COUNTERS = ["faults_fired", "reuses_observed", "expiries_observed", "used_zero_checks", "failed_sockets_tracked"]
SHARDS = {"quick": 16, "thorough": 16}
TIMEOUT = {"quick": 900, "thorough": 7200}

HARD = {"refused", "timeout", "unreach", "reset", "brokenpipe", "timeout_delivered", "eof", "oserror", "gaierror", "valueerror", "overflow", "eagain", "eintr_partial", "timeout_partial"}


def hard(k):
    return (isinstance(k, tuple) and k[0] == "trunc") or k in HARD


def sockets_of_call(rec):
    used = []
    for typ, sid, call, idx in rec["events"]:
        if sid is not None and typ in (fakenet.T_SENDALL, fakenet.T_RECV, fakenet.T_CONNECT) and sid not in used:
            used.append(sid)
    return used


def judge(case, obs):
    w, net = obs.world, obs.net
    T = case["cfg"].get("pool_idle_timeout", 0)
    viol = []
    fired_by_call = {}
    for f in net.fired:
        fired_by_call.setdefault(f[0], []).append(f)
    fclass = "+".join(sorted({history.kclass(f[3]) for f in net.fired})) or "nofault"
    stats = {"reuse": 0, "expiry": 0, "failed": 0}

    def v(key, msg):
        viol.append((key, msg))

    last_io = None      # (call index, sid, time released, ok?, faultfree?)
    clock_at = {rec["i"]: rec["t0"] for rec in obs.calls}       # virtual time at checkout
    end_at = {rec["i"]: rec["t1"] for rec in obs.calls}         # virtual time at release
    for rec in obs.calls:
        i, op, out = rec["i"], rec["op"], rec["out"]
        if op[0] in ("advance", "health"):
            continue
        used = sockets_of_call(rec)
        # (d) checked-out count back to zero
        if any(rec["used"]):
            v("USED_NOT_ZERO:%s" % op[0], "after call %d %s (%r) pool.used has %r entries [%s]" % (i, op[0], out[:2], rec["used"], fclass))
        # (e) exhaustion although nothing is checked out
        if out[0] == "exc" and out[1] == "RuntimeError" and "Too many objects" in out[2]:
            v("EXHAUSTED_WITH_NOTHING_CHECKED_OUT:%s" % op[0], "call %d %s raised %r [%s]" % (i, op[0], out[2], fclass))
        # (a) failed socket still open after the call / used later
        for s in net.socks:
            reply_fault_failed_call = (isinstance(s.fault_kind, tuple) and s.fault_kind[0] == "rline" and out[0] == "exc"
                                       and out[1] not in ("MemcacheIllegalInputError", "KeyError"))   # KeyError: item protocol on a miss
            # a read whose FIRST reply line was a memcached error line failed on that connection even when ignore_exc
            # turned the failure into a miss (C07 calls these 'erroneous replies'): the call returns, the connection goes
            swallowed_error_line = (isinstance(s.fault_kind, tuple) and s.fault_kind[0] == "rline" and s.fault_kind[1] == 0
                                    and s.fault_kind[2] in ("error", "client_error", "server_error", "long_server_error")
                                    and case["cfg"].get("ignore_exc") and out[0] == "ret" and rec["recv"] > 0
                                    and op[0] in ("get", "gets", "gat", "gats", "get_many", "gets_many"))
            if swallowed_error_line:
                stats["swallowed"] = stats.get("swallowed", 0) + 1
            if s.fault_call == i and s.fault_kind is not None and (
                    (hard(s.fault_kind) and (not isinstance(s.fault_kind, tuple) or s.trunc_effective))
                    or reply_fault_failed_call or swallowed_error_line):     # a nonsensical reply line that made the call raise: the call failed on it
                # 'a connection on which a call failed': the call must actually have failed on it.  A truncated /
                # closed stream after a call that did not wait for a reply is invisible to the client.
                certain = True        # a hard error on a socket call, or reply bytes actually withheld
                if not (out[0] == "exc" or (certain and case["cfg"].get("ignore_exc"))):
                    continue
                stats["failed"] += 1
                closes = [h for h in s.history if h[0] == fakenet.T_CLOSE]
                if not closes or closes[0][4] != i:
                    v("FAILED_CONNECTION_KEPT:%s" % op[0], "socket %d failed (%r) in call %d %s and was %s [%s]"
                      % (s.sid, s.fault_kind, i, op[0], "never closed" if not closes else "closed only in call %r" % closes[0][4], fclass))
                later = [h for h in s.history if h[0] in (fakenet.T_SENDALL, fakenet.T_RECV) and h[4] is not None and h[4] > i]
                if later:
                    v("FAILED_CONNECTION_REUSED:%s" % op[0], "socket %d failed (%r) in call %d and call %r used it again [%s]"
                      % (s.sid, s.fault_kind, i, later[0][4], fclass))
        # (b)/(c) reuse / expiry relative to the previous call
        if last_io is not None and used:
            pi, psid, ptime, pok = last_io
            gap = clock_at[i] - ptime
            psock = net.socks[psid]
            if pok and not fired_by_call.get(i) or (pok and used):
                if T == 0 or gap <= T:
                    if pok and used[0] != psid:
                        v("HEALTHY_CONNECTION_NOT_REUSED:%s" % op[0],
                          "call %d %s opened/used socket %r although socket %d was healthy and idle for %.0fs (timeout %r) [%s]"
                          % (i, op[0], used, psid, gap, T, fclass))
                    elif pok and used[0] == psid:
                        stats["reuse"] += 1
                else:
                    if psid in used:
                        v("EXPIRED_CONNECTION_REUSED:%s" % op[0], "socket %d idle %.0fs > %r was used again by call %d %s [%s]"
                          % (psid, gap, T, i, op[0], fclass))
                    else:
                        closes = [h for h in psock.history if h[0] == fakenet.T_CLOSE]
                        if not closes or closes[0][4] is None or closes[0][4] > i:
                            v("EXPIRED_CONNECTION_LEFT_OPEN:%s" % op[0], "socket %d idle %.0fs > %r still open after call %d [%s]"
                              % (psid, gap, T, i, fclass))
                        else:
                            stats["expiry"] += 1
        # bookkeeping for the next call
        if used:
            sid = used[-1]
            s = net.socks[sid]
            item_miss = (out[0] == "exc" and out[1] == "KeyError" and op[0] in ("__getitem__", "__delitem__"))
            # healthy = nothing went wrong on it in this call; whether the library nevertheless closed it is what (b) judges
            # (with ignore_exc a normal return may hide a failure the library rightly reacted to by closing: there a socket
            #  the library closed is not called healthy)
            healthy = ((out[0] == "ret" or item_miss) and not s.peer_closed and not fired_by_call.get(i)
                       and (not case["cfg"].get("ignore_exc") or not s.closed_before(i + 1))
                       and op[0] not in ("quit", "shutdown", "close"))
            last_io = (i, sid, end_at[i], healthy)
        elif out[0] != "ret" or fired_by_call.get(i):
            last_io = None if last_io is None else (last_io[0], last_io[1], last_io[2], False)
        elif last_io is not None and not net.socks[last_io[1]].closed_before(i + 1):
            # the call went through the pool without socket I/O: the idle client was checked out and released,
            # which restarts its idle period
            last_io = (last_io[0], last_io[1], end_at[i], last_io[3])
    return viol, stats


def _closed_before(self, call):
    for h in self.history:
        if h[0] == fakenet.T_CLOSE and h[4] is not None and h[4] < call:
            return True
    return False


fakenet.FakeSocket.closed_before = _closed_before


def execute(case):
    return history.execute(case)


def record(res, case, o, nt_key, sample=False):
    viol, stats = judge(case, o)
    fired = len(o.net.fired)
    res.count("faults_fired", fired)
    res.count("reuses_observed", stats["reuse"])
    res.count("expiries_observed", stats["expiry"])
    res.count("error_lines_swallowed_by_ignore_exc", stats.get("swallowed", 0))
    res.count("failed_sockets_tracked", stats["failed"])
    res.count("used_zero_checks", len(o.calls))
    res.case(nt_key, {"cfg": case["cfg"], "ops": [repr(op)[:60] for op in case["ops"]][:8], "faults": repr(case["faults"]),
                      "outcomes": [r["out"][:2] for r in o.calls][:8],
                      "sockets": [(s.sid, "closed" if s.closed else "open") for s in o.net.socks]} if sample else None)
    for key, msg in viol:
        res.violation(key, msg, case)


def cfgs():
    out = []
    for T in (0, 5):
        for mps in (1, 2, None):
            for ign in (False, True):
                c = {"pool_idle_timeout": T}
                if mps:
                    c["max_pool_size"] = mps
                if ign:
                    c["ignore_exc"] = True
                out.append(c)
    # timeouts that are not whole seconds
    out.append({"pool_idle_timeout": 2.5})
    out.append({"pool_idle_timeout": 0.5, "max_pool_size": 1})
    # client_class set to a Client subclass whose instances are falsy
    out.append({"pool_idle_timeout": 5, "harness_client_class": "falsy"})
    out.append({"pool_idle_timeout": 0, "max_pool_size": 2, "harness_client_class": "falsy"})
    return out


def systematic(res, cfg, label, op, tier, rng):
    T = cfg.get("pool_idle_timeout", 0)
    gap = rng.choice([0, 1, T]) if T else 0
    ops = [("get", ("h3",), {})] + ([("advance", (gap,), {})] if gap else []) + [op]
    faulted = len(ops) - 1
    ops += [p for _, p in catalogue.PROBES[:2]]
    case = {"stack": "pooled", "servers": [("mc1", 11211)], "cfg": cfg, "ops": ops, "faulted": faulted, "faults": {},
            "seg": ("whole",), "advance": 0}
    o0 = execute(case)
    record(res, case, o0, None)
    plans, _ = history.single_fault_plans(case, o0, "quick", rng)
    if tier == "quick" and len(plans) > 40:
        keep = [p for p in plans if not isinstance(list(p.values())[0], tuple)]
        rest = [p for p in plans if isinstance(list(p.values())[0], tuple)]
        plans = keep + rng.sample(rest, min(len(rest), 24))
    for plan in plans:
        c = dict(case)
        c["faults"] = plan
        o = execute(c)
        nt = ("sys", tuple(sorted(cfg.items())), label, gap, tuple(sorted(plan.items()))) if o.net.fired else None
        record(res, c, o, nt, sample=res.evaluations % 1501 == 0)


def gap_grid(res, cfg, rng):
    T = cfg.get("pool_idle_timeout", 0)
    # (a negative gap: the wall clock was stepped back between two calls - the connection has then been idle for less than
    #  the timeout, whatever the arithmetic says)
    gaps = ([0, 4, 5, 6, 50, -3] if T == 5 else [0, T - 0.125, T, T + 0.125, int(T) + 1, 20 * T, -1.5]) if T else [0, 1, 1000, -2]
    opsel = [("get", ("h1",), {}), ("set", ("k", b"v"), {"noreply": False}), ("set", ("k", b"v"), {"noreply": True}),
             ("get_many", (["h1", "h2"],), {})]
    for g1 in gaps:
        for g2 in gaps:
            for a in range(len(opsel)):
                ops = [opsel[a], ("advance", (g1,), {}), opsel[(a + 1) % 4], ("advance", (g2,), {}), opsel[(a + 2) % 4]]
                if (a + len(gaps) + gaps.index(g1)) % 3 == 0:
                    # the middle call is made while the caller handles an exception of its own
                    ops[2] = ops[2] + ({"in_except": True},)
                case = {"stack": "pooled", "servers": [("mc1", 11211)], "cfg": cfg, "ops": ops, "faulted": 0, "faults": {},
                        "seg": ("whole",), "advance": 0}
                o = execute(case)
                nt = ("gap", tuple(sorted(cfg.items())), g1, g2, a) if (T and (g1 >= T or g2 >= T)) else None
                record(res, case, o, nt)


def slow_calls(res, cfg):
    """a call that takes long (slow server): the idle period starts at release, not at checkout"""
    T = cfg.get("pool_idle_timeout", 0)
    if not T:
        return
    for slow in (1, 4, 9):
        for gap in ((0, 2, 5, 6) if T == 5 else (0, T - 0.125, T, T + 0.125)):
            ops = [("get", ("h1",), {}), ("advance", (gap,), {}), ("get", ("h2",), {})]
            case = {"stack": "pooled", "servers": [("mc1", 11211)], "cfg": cfg, "ops": ops, "faulted": 0, "faults": {},
                    "seg": ("whole",), "advance": 0, "slow": {0: slow}}
            o = execute(case)
            record(res, case, o, ("slow", tuple(sorted(cfg.items())), slow, gap))
            res.count("slow_call_scenarios")


def random_history(res, rng, tier):
    cfg = rng.choice(cfgs())
    T = cfg.get("pool_idle_timeout", 0)
    allops = [op for _, op in catalogue.ops_catalogue() if catalogue.supports("pooled", op[0])]
    n = rng.randint(2, 8)
    ops = []
    faults = {}
    gaps = []
    for j in range(n):
        op = rng.choice(allops)
        if rng.random() < 0.5:
            g = rng.choice([0, 1, T - 1, T, T + 1, 10 * T]) if T else rng.choice([0, 3, 100])
            if g > 0:
                ops.append(("advance", (g,), {}))
                gaps.append(g)
        idx = len(ops)
        if rng.random() < 0.15:
            op = tuple(op[:3]) + ({"in_except": True},)
        ops.append(op)
        if rng.random() < 0.4:
            typ = rng.choice([fakenet.T_CONNECT, fakenet.T_SENDALL, fakenet.T_RECV, fakenet.T_RECV, fakenet.T_SETTIMEOUT,
                              fakenet.T_SOCKET, fakenet.T_GAI, fakenet.T_CLOSE])
            kinds = list(fakenet.KINDS[typ])
            if typ == fakenet.T_SENDALL:
                kinds += [("rline", 0, rng.choice(list(fakenet.REPLY_LINE_VARIANTS))), ("trunc", rng.randrange(0, 12), rng.choice(("eof", "stall")))]
            faults[(idx, typ)] = rng.choice(kinds)
    ops.append(("get", ("h2",), {}))
    case = {"stack": "pooled", "servers": [("mc1", 11211)], "cfg": cfg, "ops": ops, "faulted": 0, "faults": faults,
            "seg": ("random", rng.randrange(1 << 30)), "advance": 0}
    o = execute(case)
    nt = None
    if o.net.fired or (T and any(g >= T for g in gaps)):
        nt = ("rand", tuple(sorted(cfg.items())), tuple(op[0] for op in ops), tuple(sorted(faults.items(), key=repr)), tuple(gaps))
    record(res, case, o, nt, sample=res.evaluations % 1501 == 0)


def multi_connection_idle(res, rng, count):
    """several connections checked out at once (what concurrent callers produce), released at different times, then
    checkouts after gaps: whatever is still idle in the pool after a checkout must not have been idle longer than the
    timeout, and nothing that was idle <= timeout may have been retired.  Driven on the pool beneath PooledClient with
    the real inner Clients over FakeNet and the virtual pool clock."""
    import pymemcache.client.base as base
    for _ in range(count):
        T = rng.choice([5, 5, 9])
        w = driver.World({"stack": "pooled", "servers": [("mc1", 11211)], "cfg": {"pool_idle_timeout": T}, "prefill": {}})
        pool = w.obj.client_pool
        released_at = {}
        held = []
        plan = []
        try:
            for step in range(rng.randrange(4, 14)):
                c = rng.random()
                if c < 0.4 or not (held or pool.free):
                    before_free = {id(o): o for o in pool.free}
                    w.net.begin_call(("pool", step))
                    o = pool.get()
                    o.get("k")                     # make it a real connection
                    held.append(o)
                    plan.append("get")
                    now = w.clock.now()
                    # objects that left the free list in this checkout without being handed out were retired
                    for oid, obj in before_free.items():
                        if obj is not o and all(obj is not f for f in pool.free):
                            idle = now - released_at[oid]
                            if idle <= T:
                                res.violation("multi:healthy-connection-retired-early", "a connection idle %.0fs <= %r was retired at checkout; plan %r"
                                              % (idle, T, plan), ("multi", plan))
                            elif obj.sock is not None:
                                res.violation("multi:expired-connection-left-open", "retired connection still open; plan %r" % (plan,), ("multi", plan))
                            else:
                                res.count("expiries_observed")
                    if id(o) in before_free:
                        idle = now - released_at[id(o)]
                        if idle > T:
                            res.violation("multi:expired-connection-reused", "checkout handed out a connection idle %.0fs > %r; plan %r" % (idle, T, plan),
                                          ("multi", plan))
                        else:
                            res.count("reuses_observed")
                    for f in pool.free:
                        idle = now - released_at[id(f)]
                        if idle > T:
                            res.violation("multi:expired-connection-left-in-pool",
                                          "after a checkout a connection idle %.0fs > %r is still open in the pool (never examined); plan %r"
                                          % (idle, T, plan), ("multi", plan))
                            break
                elif c < 0.65 and held:
                    o = held.pop(rng.randrange(len(held)))
                    pool.release(o)
                    released_at[id(o)] = w.clock.now()
                    plan.append("release")
                elif c < 0.75 and held:
                    # a call failed on one connection: it is destroyed; healthy idle siblings stay pooled and open
                    o = held.pop(rng.randrange(len(held)))
                    idle_before = list(pool.free)
                    pool.destroy(o)
                    plan.append("destroy")
                    if o.sock is not None:
                        res.violation("multi:destroyed-connection-left-open", "plan %r" % (plan,), ("multi", plan))
                    for f in idle_before:
                        if all(f is not x for x in pool.free) or f.sock is None:
                            res.violation("multi:healthy-idle-connection-closed-by-a-sibling's-failure",
                                          "destroying one connection removed/closed an idle one; plan %r" % (plan,), ("multi", plan))
                            break
                else:
                    g = rng.choice([1, 2, T - 1, T, T + 1, 3 * T])
                    w.clock.advance(g)
                    plan.append("adv%d" % g)
            res.count("multi_connection_histories")
            res.case(("multi", tuple(plan)))
        finally:
            w.close()


def race_section(res, tier):
    """two threads: a slow call hands its connection back while another thread checks one out.  The idle period starts
    when the release begins; explored with C08's deterministic scheduler (all schedules with <= 2 preemptions)."""
    from checks import c08
    from vk import sched as S
    S.install(c08.pool_codes(), "line")
    for programs in ((("slow_use",), ("get_release",)), (("slow_use",), ("slow_use",)), (("slow_use", "get_release"), ("get_release",))):
        for ms in (2, None):
            case = ("pool", programs, ms, 5)
            sub = common.Result()
            c08.explore(sub, case, 2, "line", 4000 if tier == "quick" else 40000)
            res.count("race_schedules_executed", sub.counters.get("schedules_executed", 0))
            res.evaluations += sub.evaluations
            res.nontrivial |= sub.nontrivial
            for v in sub.violations:
                res.violations.append({"key": "race:" + v["key"], "message": v["message"], "case": repr(("race", ast.literal_eval(v["case"])))})
                res.count("violations_seen")


def shard(tier, seed, idx, n):
    res = common.Result()
    if idx == n - 1:
        race_section(res, tier)
    work = 0
    cat = [(l, op) for l, op in catalogue.ops_catalogue() if catalogue.supports("pooled", op[0])]
    for ci, cfg in enumerate(cfgs()):
        for label, op in cat:
            work += 1
            if work % n != idx:
                continue
            if tier == "quick" and common.h64((ci, label)) % 3 != 0:
                continue
            systematic(res, cfg, label, op, tier, random.Random(seed * 7919 + work))
        work += 1
        if work % n == idx:
            gap_grid(res, cfg, random.Random(seed + work))
            slow_calls(res, cfg)
    rng = random.Random(seed * 104729 + idx)
    for _ in range(300 if tier == "quick" else 8000):
        random_history(res, rng, tier)
    multi_connection_idle(res, rng, 150 if tier == "quick" else 4000)
    return res


def replay(case):
    res = common.Result()
    if isinstance(case, tuple) and case[0] == "race":
        from checks import c08
        from vk import sched as S
        c, forced, mode = case[1]
        S.install(c08.pool_codes(), mode)
        sch, viol, mon, ok = c08.run_case(c, forced, mode)
        for key, msg in viol:
            res.violation("race:%s:%s" % (key, c[0]), msg, case)
        res.case(("replay",))
        for cn in REQUIRED_COUNTERS:
            res.count(cn)
        return res
    o = execute(case)
    record(res, case, o, ("replay",))
    print("outcomes:", [r["out"] for r in o.calls])
    for s in o.net.socks:
        print("socket", s.sid, "closed" if s.closed else "OPEN", "fault", s.fault_kind, s.fault_call, [(h[0], h[4]) for h in s.history])
    for c in REQUIRED_COUNTERS:
        res.count(c)
    return res
