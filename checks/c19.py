"""C19 - ElastiCache auto-discovery: rotation equals the advertised node list.

Monitor: a multi-server FakeNet whose configuration endpoint (a RefServer answering
'config get cluster') is the ground truth for the advertised list, with per-node parsed
command logs, the getaddrinfo log (host name vs IP, port) and the socket ledger.  After
construction and after every reconfigure_nodes() a key corpus is routed and the logs are
checked against the advertised list."""
import itertools
import random

from vk import common, fakenet
from vk.fakenet import FakeNet
from vk.refserver import RefServer, VClock

PROPERTY = "C19"
LEVEL = "exploration"
RULE = ("node lists of 1..6 nodes over a universe of 6 (distinct host names, IPs and ports; plus a second port on one host/IP and a node replaced under its old name) x use_vpc on/off (bool or int) x all sequences of "
        "reconfigurations (scale-up, scale-down, replace, reorder) up to length 2 (thorough 3) over a pool of 11 lists (sizes 1..6), sampled "
        "beyond x reply segmentations (whole, every single cut of the config reply, single bytes, cuts inside the 7-byte end "
        "token) x traffic between reconfigurations, a failing node before a reconfiguration, pooling on/off; endpoint answering "
        "ERROR. Non-trivial = a reconfiguration that removes a node, or a split reply; distinct by (list sequence, use_vpc, "
        "segmentation, pooling, failing node?).")
ASSUMPTIONS = [
    "the config endpoint's reply format is the documented 'CONFIG cluster 0 <len>\\r\\n<version>\\n<host|ip|port ...>\\n\\r\\nEND\\r\\n'",
    "a 400-key corpus must give every advertised node at least one key (rendezvous balance; up to 6 nodes)",
]
MIN_NONTRIVIAL = {"quick": 400, "thorough": 5000}
REQUIRED_COUNTERS = ["reconfigurations", "keys_routed", "node_removals", "split_config_replies", "error_endpoint_cases"]
SHARDS = {"quick": 16, "thorough": 16}
TIMEOUT = {"quick": 900, "thorough": 7200}

UNIVERSE = [("node%d.abc.use1.cache.amazonaws.com" % i, "10.9.0.%d" % (10 + i), 11211 + i) for i in range(6)]
# 6: a second node on node 0's host and IP, another port (two memcached processes on one machine)
# 7: node 1 replaced - same host name and port, new machine (new IP); DNS follows whichever of 1 / 7 is advertised
UNIVERSE.append((UNIVERSE[0][0], UNIVERSE[0][1], 11311))
UNIVERSE.append((UNIVERSE[1][0], "10.9.0.77", UNIVERSE[1][2]))
SPECIAL_SEQS = [((0, 6),), ((0, 6, 2), (6, 2)), ((6,), (0, 6)), ((0, 6), (0,)), ((1, 2), (7, 2)), ((0, 1), (0, 7), (0, 1)), ((1,), (7,)),
                ((7, 6, 3), (1, 0))]
LISTS = [(0,), (0, 1), (0, 1, 2), (1, 2), (2,), (3, 4, 5), (0, 1, 2, 3, 4, 5), (5, 0), (1, 0), (0, 2, 3, 5), (4, 3, 2, 1, 0)]
CFG = "mycluster.abc.cfg.use1.cache.amazonaws.com"
CORPUS = ["key-%d" % i for i in range(400)]


class World:
    def __init__(self, seg):
        self.clock = VClock()
        self.net = FakeNet(seg)
        self.net.clock = self.clock
        self.net.trace_enabled = False
        self.cfg_srv = self.net.add_server(CFG, 11211, RefServer(self.clock, name="cfg"), ips=["10.9.9.9"])
        self.nodes = {}
        for host, ip, port in UNIVERSE:
            srv = RefServer(self.clock, name="%s(%s:%d)" % (host, ip, port))
            keep = self.net.dns.get((host, port))
            self.net.add_server(host, port, srv, ips=[ip])
            if keep is not None:
                self.net.dns[(host, port)] = keep         # the name keeps pointing at the original machine until advertised otherwise
            self.nodes[(host, ip, port)] = srv
        self.version = 7          # configuration versions cross 9 -> 10 within a scenario

    def advertise(self, idxs):
        self.version += 1
        self.cfg_srv.cluster_config = (self.version, [UNIVERSE[i] for i in idxs])
        for i in idxs:
            host, ip, port = UNIVERSE[i]
            self.net.dns[(host, port)] = [(self.net.AF_INET, (ip, port))]      # DNS follows the advertised machine


def route_and_check(res, w, client, adv, use_vpc, v, label):
    """route the corpus; every key must reach exactly one advertised node through the right name/port"""
    net = w.net
    advertised = [UNIVERSE[i] for i in adv]
    marks = {n: len(s.cmdlog) for n, s in w.nodes.items()}
    g0 = len(net.gai_log)
    errors = {}
    for k in CORPUS:
        try:
            client.get(k)
        except Exception as e:
            errors.setdefault(type(e).__name__, []).append(k)
    res.count("keys_routed", len(CORPUS))
    for name, ks in errors.items():
        v("routing-raises:%s" % name, "%s: %d of %d keys raise %s (e.g. %r) with advertised nodes %r"
          % (label, len(ks), len(CORPUS), name, ks[0], adv))
    got = {n: len(s.cmdlog) - marks[n] for n, s in w.nodes.items()}
    for n, cnt in got.items():
        if cnt and n not in advertised:
            v("routed-to-unadvertised-node", "%s: %d commands reached %s which is not advertised (%r)" % (label, cnt, n[0], adv))
    if not errors:
        for n in advertised:
            if got[n] == 0:
                v("advertised-node-gets-no-keys", "%s: %s received none of %d keys (advertised %r)" % (label, n[0], len(CORPUS), adv))
        if sum(got.values()) != len(CORPUS):
            v("key-not-routed-exactly-once", "%s: %d commands for %d keys" % (label, sum(got.values()), len(CORPUS)))
    # commands addressed to every node reach exactly the advertised ones
    marks2 = {n: len(s_.cmdlog) for n, s_ in w.nodes.items()}
    for opn in ("stats", "flush_all"):
        try:
            getattr(client, opn)()
        except Exception as e:
            v("all-nodes-command-raises:%s:%s" % (opn, type(e).__name__), "%s: %s() raised %r with advertised nodes %r" % (label, opn, e, adv))
    for n, s_ in w.nodes.items():
        verbs = {c.verb for c in s_.cmdlog[marks2[n]:]}
        if n in advertised and not {b"stats", b"flush_all"} <= verbs:
            v("all-nodes-command-skips-advertised-node", "%s: %s saw only %r of stats/flush_all" % (label, n[0], sorted(verbs)))
        if n not in advertised and verbs:
            v("all-nodes-command-reaches-unadvertised-node", "%s: %s (not advertised) received %r" % (label, n[0], sorted(verbs)))
    # name / port used to resolve
    want = {((n[1] if use_vpc else n[0]), str(n[2])) for n in advertised}
    for host, port, call in net.gai_log[g0:]:
        if (host, str(port)) not in want:
            v("resolved-wrong-address:%s" % ("vpc" if use_vpc else "fqdn"),
              "%s: connected via getaddrinfo(%r, %r); advertised %s addresses are %r"
              % (label, host, port, "IP" if use_vpc else "host name", sorted(want)))
            break


def open_sockets_to(w):
    out = {}
    for s in w.net.socks:
        if not s.closed and s.connected:
            out.setdefault(s.addr_key(), 0)
            out[s.addr_key()] += 1
    return out


class _FormattingHandler:
    """what a real handler does with a record: it builds the message (and with it evaluates every logging argument)"""
    level = 0

    def __init__(self, counter):
        self.counter = counter

    def handle(self, record):
        try:
            record.getMessage()
        except Exception:
            pass
        self.counter[0] += 1
        return True


def scenario(res, seq, use_vpc, segspec, pooling, failing, label="", own_hasher=False, opts=()):
    """opts: 'in-except' (reconfigure_nodes() is called from inside an except block), 'debug-log' (the application runs with DEBUG logging for the library), 'tls' (a TLS context is configured),
    'hand-added' (a server outside the advertised list was added through the public add_server() before a reconfiguration)"""
    import logging
    logging.raiseExceptions = False     # the library's own logger.exception() call has a formatting slip; keep stderr quiet
    lg = logging.getLogger("pymemcache")
    saved_log = (lg.level, list(lg.handlers), lg.propagate)
    nrec = [0]
    if "debug-log" in opts:
        lg.setLevel(logging.DEBUG)
        lg.handlers = [_FormattingHandler(nrec)]
        lg.propagate = False
    try:
        return _scenario(res, seq, use_vpc, segspec, pooling, failing, label, own_hasher, tuple(opts))
    finally:
        lg.setLevel(saved_log[0])
        lg.handlers = saved_log[1]
        lg.propagate = saved_log[2]
        res.count("log_records_formatted", nrec[0])


def _scenario(res, seq, use_vpc, segspec, pooling, failing, label, own_hasher, opts):
    from pymemcache.client.ext.aws_ec_client import AWSElastiCacheHashClient
    import pymemcache.client.hash as hashmod
    from vk import driver
    w = World(driver.make_seg(segspec))
    viol = []
    case = (seq, use_vpc, segspec, pooling, failing, "", own_hasher) if own_hasher else (seq, use_vpc, segspec, pooling, failing)
    if opts:
        case = (seq, use_vpc, segspec, pooling, failing, "", own_hasher, opts)

    def v(key, msg):
        viol.append((key, msg))

    import pymemcache.client.ext.aws_ec_client as awsmod
    # (the AWS client's constructor stamps _last_dead_check_time through its own module's clock)
    restore_clocks = [w.clock.patch_module(hashmod), w.clock.patch_module(awsmod)]
    try:
        w.advertise(seq[0])
        w.net.begin_call("ctor")
        try:
            # the flag as a bool or as the equivalent int (configuration files, environment variables)
            vpc_arg = (int(use_vpc) if (len(seq) + len(seq[0]) + int(pooling)) % 2 else use_vpc)
            extra = {}
            if own_hasher:
                # a user-supplied hasher offering only the documented methods (add_node / remove_node / get_node)
                from checks.c13 import ContractOnlyHasher
                extra["hasher"] = ContractOnlyHasher
            if "tls" in opts:
                extra["tls_context"] = fakenet.FakeTLSContext(w.net)
            client = AWSElastiCacheHashClient("%s:11211" % CFG, socket_module=w.net, use_vpc=vpc_arg, use_pooling=pooling,
                                              retry_attempts=1, retry_timeout=10, dead_timeout=100, default_noreply=False, **extra)
        except Exception as e:
            v("constructor-raises:%s" % type(e).__name__, "constructor with advertised %r, seg %r raised %r" % (seq[0], segspec[0], e))
            return viol, case
        if segspec[0] != "whole":
            res.count("split_config_replies")
        # segmentation applies to the discovery reply only
        w.net.seg = fakenet.Whole()
        route_and_check(res, w, client, seq[0], use_vpc, v, "after construction")
        prev = seq[0]
        for step, adv in enumerate(seq[1:], 1):
            if failing and step == 1 and len(prev) >= 1:
                # a node fails (and is evicted / marked failed) before the list changes; which one varies
                bad = UNIVERSE[prev[-1] if failing is True else prev[(failing - 1) % len(prev)]]
                if pooling:
                    # what concurrent callers leave behind: several idle connections per node
                    for pc in client.clients.values():
                        pool = getattr(pc, "client_pool", None)
                        if pool is not None:
                            conns = [pool.get() for _ in range(4)]
                            for cx in conns:
                                cx.get("warm")
                            for cx in conns:
                                pool.release(cx)
                w.nodes[bad].health = "refused"
                from pymemcache.exceptions import MemcacheError
                for rnd in range(2):
                    for k in CORPUS[:60]:
                        try:
                            client.get(k)
                        except (OSError, MemcacheError):
                            pass            # the failing node's own error, or 'all servers down'
                        except Exception as e:
                            v("internal-error-during-failover:%s" % type(e).__name__,
                              "get(%r) while node %s is refusing raised %r" % (k, bad[0], e))
                            break
                    # the reconfiguration may come right after the failures (inside the retry window) or later
                    if rnd == 0 or (len(prev) + len(adv)) % 2 == 0:
                        w.clock.advance(11)
                w.nodes[bad].health = "up"
            if failing and step == 1 and (len(seq) + len(prev)) % 2 == 0:
                # the endpoint refuses once: the call must fail with the memcached error and leave a usable client
                from pymemcache.exceptions import MemcacheUnknownCommandError
                saved_cfg = w.cfg_srv.cluster_config
                w.cfg_srv.cluster_config = "ERROR"
                w.net.begin_call("reconf-error")
                try:
                    client.reconfigure_nodes()
                    v("error-endpoint-no-exception", "endpoint answered ERROR during reconfigure but no error was raised")
                except MemcacheUnknownCommandError:
                    pass
                except Exception as e:
                    v("error-endpoint-wrong-exception:%s" % type(e).__name__, "reconfigure against an ERROR endpoint raised %r" % (e,))
                w.cfg_srv.cluster_config = saved_cfg
                res.count("failed_reconfigurations")
            if "hand-added" in opts and step == 1:
                # somebody added a server by hand through the public add_server(); it is not advertised, so the next
                # reconfiguration retires it like any other node that is no longer in the list
                extra_node = next(u for i_, u in enumerate(UNIVERSE[:6]) if i_ not in prev and i_ not in adv)
                client.add_server((extra_node[1] if use_vpc else extra_node[0]), extra_node[2])
                for k in CORPUS[:80]:
                    try:
                        client.get(k)
                    except Exception as e:
                        v("routing-raises-with-a-hand-added-server:%s" % type(e).__name__, "get(%r) raised %r" % (k, e))
                        break
                res.count("hand_added_servers")
            w.advertise(adv)
            w.net.seg = driver.make_seg(segspec)
            w.net.begin_call("reconf%d" % step)
            try:
                if "in-except" in opts:
                    # the usual call site: the application reconfigures while it handles the error that made it suspect a change
                    try:
                        raise LookupError("the caller's own exception")
                    except LookupError:
                        client.reconfigure_nodes()
                    res.count("reconfigurations_from_inside_an_except_block")
                else:
                    client.reconfigure_nodes()
            except Exception as e:
                v("reconfigure-raises:%s" % type(e).__name__, "reconfigure_nodes() to %r raised %r" % (adv, e))
                return viol, case
            w.net.seg = fakenet.Whole()
            res.count("reconfigurations")
            if set(prev) - set(adv):
                res.count("node_removals")
            # connections to replaced nodes are closed
            advertised_addrs = {(UNIVERSE[i][1], UNIVERSE[i][2]) for i in adv}
            for addr, cnt in open_sockets_to(w).items():
                if addr not in advertised_addrs and addr != ("10.9.9.9", 11211):
                    v("connection-to-removed-node-left-open", "after reconfigure to %r a socket to %r is still open" % (adv, addr))
            route_and_check(res, w, client, adv, use_vpc, v, "after reconfigure #%d %r->%r" % (step, prev, adv))
            if failing:
                # a de-advertised node must not come back through dead-server revival
                w.clock.advance(250)
                route_and_check(res, w, client, adv, use_vpc, v, "250s after reconfigure #%d %r->%r" % (step, prev, adv))
            prev = adv
        if open_sockets_to(w).get(("10.9.9.9", 11211)):
            v("config-connection-left-open", "the connection to the configuration endpoint is still open")
        if "tls" in opts:
            res.count("tls_scenarios")
            for s_ in w.net.socks:
                for typ, detail, tmo, via, call in s_.history:
                    if typ in (fakenet.T_CONNECT, fakenet.T_SENDALL, fakenet.T_RECV) and not via:
                        v("tls-bypassed:%s" % ("config-endpoint" if s_.addr_key() == ("10.9.9.9", 11211) or call in ("ctor",) or str(call).startswith("reconf") else "node"),
                          "socket %d (%r, call %r): %s not through the TLS wrapper although tls_context is configured"
                          % (s_.sid, s_.addr_key(), call, typ))
                        break
            for kind, detail in w.net.alarms:
                if kind == "RAW_IO_AFTER_WRAP":
                    v("tls-bypassed:raw-io-after-wrap", detail)
    finally:
        for r_ in restore_clocks:
            r_()
    return viol, case


def error_endpoint(res):
    from pymemcache.client.ext.aws_ec_client import AWSElastiCacheHashClient
    from pymemcache.exceptions import MemcacheUnknownCommandError
    for use_vpc in (True, False):
      for seg in (fakenet.Whole(), fakenet.SingleBytes(), fakenet.CutSet([2]), fakenet.CutSet([5]), fakenet.CutSet([6])):
        for when in ("construction", "reconfigure"):
            w = World(seg)
            case = ("error-endpoint", use_vpc, when)
            res.count("error_endpoint_cases")
            try:
                if when == "construction":
                    w.cfg_srv.cluster_config = "ERROR"
                    AWSElastiCacheHashClient("%s:11211" % CFG, socket_module=w.net, use_vpc=use_vpc)
                else:
                    w.advertise((0, 1))
                    c = AWSElastiCacheHashClient("%s:11211" % CFG, socket_module=w.net, use_vpc=use_vpc)
                    w.cfg_srv.cluster_config = "ERROR"
                    c.reconfigure_nodes()
                res.violation("error-endpoint-no-exception", "endpoint answered ERROR during %s but no error was raised" % when, case)
            except MemcacheUnknownCommandError:
                pass
            except Exception as e:
                res.violation("error-endpoint-wrong-exception:%s" % type(e).__name__,
                              "endpoint answered ERROR during %s: raised %r instead of MemcacheUnknownCommandError" % (when, e), case)
            res.case(case)


def odd_payload_endpoint(res):
    """The endpoint answers the config command with an empty or garbled payload.  What the call raises is not the
    statement's business; that the connection to the endpoint is closed whatever happened, and that the client is usable
    again once the endpoint behaves, is (C06 for the Client inside the hash client; 'talks to exactly the advertised nodes')."""
    from pymemcache.client.ext.aws_ec_client import AWSElastiCacheHashClient
    payloads = [b"\n\r\nEND\r\n", b"CONFIG cluster 0 0\r\n\n\r\nEND\r\n", b"CONFIG cluster 0 5\r\n1\nxx\n\r\nEND\r\n",
                b"CONFIG cluster 0 3\r\n1\n\n\n\r\nEND\r\n", b"\r\n\n\r\nEND\r\n"]
    for use_vpc in (True, False):
        for pi, payload in enumerate(payloads):
            for when in ("construction", "reconfigure"):
                w = World(fakenet.Whole() if pi % 2 == 0 else fakenet.SingleBytes())
                case = ("odd-payload", use_vpc, pi, when)
                res.count("odd_payload_cases")
                c = None
                try:
                    if when == "construction":
                        w.cfg_srv.cluster_config = payload
                        AWSElastiCacheHashClient("%s:11211" % CFG, socket_module=w.net, use_vpc=use_vpc)
                    else:
                        w.advertise((0, 1))
                        c = AWSElastiCacheHashClient("%s:11211" % CFG, socket_module=w.net, use_vpc=use_vpc)
                        w.cfg_srv.cluster_config = payload
                        c.reconfigure_nodes()
                    res.count("odd_payload_accepted")
                except Exception:
                    res.count("odd_payload_raised")
                if open_sockets_to(w).get(("10.9.9.9", 11211)):
                    res.violation("config-connection-left-open:odd-payload",
                                  "after the endpoint answered %r during %s the connection to it is still open" % (payload, when), case)
                if c is not None:
                    # the endpoint recovers: a later reconfiguration works and the client talks to the advertised nodes
                    viol = []
                    w.advertise((1, 2))
                    try:
                        c.reconfigure_nodes()
                        route_and_check(res, w, c, (1, 2), use_vpc, lambda k, m: viol.append((k, m)), "after the endpoint recovered")
                    except Exception as e:
                        viol.append(("reconfigure-raises-after-odd-payload:%s" % type(e).__name__, repr(e)))
                    for k, m in viol[:3]:
                        res.violation(k, m, case)
                res.case(case)


def config_reply_len(idxs):
    body = b"1\n" + b" ".join(b"%s|%s|%d" % (h.encode(), ip.encode(), p) for h, ip, p in [UNIVERSE[i] for i in idxs]) + b"\n"
    return len(b"CONFIG cluster 0 %d\r\n" % len(body) + body + b"\r\nEND\r\n")


def shard(tier, seed, idx, n):
    res = common.Result()
    rng = random.Random(seed * 3571 + 19)
    maxlen = 2 if tier == "quick" else 3
    seqs = []
    for L in range(1, maxlen + 2):
        for s in itertools.product(range(len(LISTS)), repeat=L):
            if any(a == b for a, b in zip(s, s[1:])):
                continue
            seqs.append(tuple(LISTS[i] for i in s))
    if tier == "quick":
        seqs = [s for s in seqs if len(s) <= 2] + rng.sample([s for s in seqs if len(s) == 3], 60)
    # shared host/IP with different ports, and a node replaced under its old name; each several times (the per-sequence
    # options below vary with the position in the list)
    seqs = list(seqs) + SPECIAL_SEQS * 6
    work = 0
    for seq in seqs:
        for use_vpc in (True, False):
            work += 1
            if work % n != idx:
                continue
            r = random.Random(seed + work)
            L = config_reply_len(seq[0])
            segs = [("whole",), ("single",), ("cuts", [L - r.randrange(1, 8)]), ("cuts", [r.randrange(1, L)]),
                    ("random", r.randrange(1 << 30))]
            segspec = segs[work % len(segs)]
            pooling = (work // 5) % 2 == 1
            failing = ((work // 10) % 3 == 0 and len(seq) > 1) and (True if (work // 30) % 3 == 0 else 1 + (work // 30) % 3)
            own = (work // 7) % 4 == 0
            opts = tuple(o for o, on in (("debug-log", (work // 3) % 3 == 0), ("tls", (work // 11) % 5 == 0), ("in-except", (work // 4) % 3 == 1),
                                         ("hand-added", len(seq) > 1 and (work // 2) % 4 == 1
                                          and len(set(seq[0]) | set(seq[1])) < 6 and max(seq[0] + seq[1]) < 6)) if on)
            viol, case = scenario(res, seq, use_vpc, segspec, pooling, failing, own_hasher=own, opts=opts)
            if own:
                res.count("scenarios_with_a_user_supplied_hasher")
            removes = any(set(a) - set(b) for a, b in zip(seq, seq[1:]))
            nt = (seq, use_vpc, segspec[0], pooling, failing, opts) if (removes or segspec[0] != "whole") else None
            res.case(nt, {"lists": seq, "use_vpc": use_vpc, "segmentation": segspec[0], "pooling": pooling, "failing_node_before": failing}
                     if res.evaluations % 97 == 0 else None)
            for key, msg in viol[:4]:
                res.violation(key, msg, case)
    # every single cut of one discovery reply, both modes
    L = config_reply_len((0, 1, 2))
    for cut in range(1, L):
        work += 1
        if work % n != idx:
            continue
        for use_vpc in (True, False):
            viol, case = scenario(res, ((0, 1, 2), (1, 2)), use_vpc, ("cuts", [cut]), False, False)
            res.case(((0, 1, 2), use_vpc, "cut", cut))
            for key, msg in viol[:4]:
                res.violation(key, msg, case)
    if idx == 0:
        error_endpoint(res)
    if idx == 1 % n:
        odd_payload_endpoint(res)
    return res


def replay(case):
    res = common.Result()
    if case[0] == "error-endpoint":
        error_endpoint(res)
    elif case[0] == "odd-payload":
        odd_payload_endpoint(res)
    else:
        viol, c = scenario(res, *case)
        for key, msg in viol:
            res.violation(key, msg, case)
    res.case(("replay",))
    for c in REQUIRED_COUNTERS:
        res.count(c)
    res.nontrivial.update({1, 2})
    return res
