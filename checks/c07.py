"""C07 - ignore_exc turns every read failure into a cache miss.

Monitor: miss-equivalence.  With ignore_exc=True every read of every client class is run
under every injected failure (each socket call of the read x each fault kind, servers down,
failing deserialisers, undecodable items); the reference result is what *the same call with
the same arguments* returns from the same class on an empty healthy server.  The failure
result must be equal in value, type and shape, nothing may be raised, and a set+get on the
same object must work afterwards."""
import random

from vk import catalogue, common, driver, fakenet, history

PROPERTY = "C07"
LEVEL = "fault_enumeration"
RULE = ("reads {get, gets, get_many, gets_many, gat, gats} x {Client, PooledClient, HashClient(1..3 servers, pooled or not)} with "
        "ignore_exc=True x faults: every socket call of the read x every kind of C01 (incl. reply-line replacement and truncation "
        "at every byte), server refusing/timing out/resetting (one down, all down, retry_attempts 0 and 2), a deserializer that "
        "raises, undecodable flags x defaults passed by keyword as sentinels (where the class's signature accepts them) and "
        "positionally for get; followed by set+get on the same object. Non-trivial = the failure fired; distinct by (stack, "
        "servers, op, defaults?, warm?, fault site, kind).")
ASSUMPTIONS = [
    "the miss result of the same class on an empty healthy server is the specification of the failure result",
    "arguments a class's signature does not accept are not passed to that class (signature parity is C16's subject)",
    "input errors (illegal keys) are not server or network failures and are not generated",
]
MIN_NONTRIVIAL = {"quick": 4000, "thorough": 8000}
REQUIRED_COUNTERS = ["failures_fired", "miss_equivalence_checks", "followup_roundtrips_ok"]
SHARDS = {"quick": 16, "thorough": 16}
TIMEOUT = {"quick": 900, "thorough": 7200}

S1, S2 = "<<default-sentinel>>", "<<cas-default-sentinel>>"

STACKS = [
    ("client", 1, {}), ("pooled", 1, {}), ("hash", 1, {}), ("hash", 2, {}), ("hash", 3, {"retry_attempts": 0}),
    ("hashpooled", 1, {}), ("hashpooled", 2, {"retry_attempts": 0}),
    # servers given as UNIX socket paths (a str, not a (host, port) pair, all the way through the fail-over bookkeeping)
    ("client", 1, {"_unix": True}), ("hash", 2, {"_unix": True, "retry_attempts": 0}), ("hashpooled", 1, {"_unix": True}),
]


def reads_for(stack, with_defaults):
    """op list per class; defaults only where the signature accepts them (by keyword)"""
    R = []
    d = {"default": S1} if with_defaults else {}
    dc = {"default": S1, "cas_default": S2} if with_defaults else {}
    if stack == "client":
        R += [("get", ("k1",), d), ("gets", ("k1",), dc), ("gat", ("k1",), dict(d, expire=9)), ("gats", ("k1",), dict(dc, expire=9))]
    elif stack == "pooled":
        R += [("get", ("k1",), d), ("gets", ("k1",), {}), ("gat", ("k1",), dict(d, expire=9)), ("gats", ("k1",), dict(d, expire=9))]
    else:
        R += [("get", ("k1",), d), ("gets", ("k1",), dc), ("gat", ("k1",), dict(d, expire=9)), ("gats", ("k1",), dict(dc, expire=9))]
    if with_defaults:
        R.append(("get", ("k1", S1), {}))          # positional default: common to the three classes
    else:
        R += [("get_many", (["k1", "k2", "k3"],), {}), ("gets_many", (["k1", "k2", "k3"],), {}), ("get_many", (["k1"],), {})]
    return R


def servers_for(n, unix=False):
    if unix:
        return ["/var/run/memcached/mc%d.sock" % i for i in range(1, n + 1)]
    return [("mc%d" % i, 11211) for i in range(1, n + 1)]


def same_shape(a, b):
    if type(a) is not type(b):
        return False
    if isinstance(a, tuple):
        return len(a) == len(b) and all(same_shape(x, y) for x, y in zip(a, b))
    return a == b


FOLLOW = [("set", ("after", b"still-usable"), {"noreply": False}), ("get", ("after",), {})]


def base_case(stack, nserv, extra, op, warm, prefill=None, serde=None, pre_ops=(), post_health=()):
    cfg = dict(extra, ignore_exc=True)
    unix = cfg.pop("_unix", False)
    if serde:
        cfg["serde"] = serde
    ops = list(pre_ops)
    if warm:
        ops.append(("get", ("warm",), {}))
    faulted = len(ops)
    ops.append(op)
    ops.extend(post_health)
    if stack.startswith("hash") and not post_health:
        # 'afterwards the client is still usable': let retry_timeout / dead_timeout elapse first, as C13 specifies
        ops.append(("advance", (500,), {}))
    ops.extend(FOLLOW)
    return {"stack": stack, "servers": servers_for(nserv, unix), "cfg": cfg, "ops": ops, "faulted": faulted, "faults": {},
            "seg": ("whole",), "prefill": prefill or {}, "advance": 2 if stack.startswith("hash") else 0}


def miss_reference(case):
    """the same call on an empty healthy server through the same class"""
    ref = dict(case)
    ref["ops"] = [case["ops"][case["faulted"]]]
    ref["faulted"] = 0
    ref["prefill"] = {}
    ref["faults"] = {}
    o = history.execute(ref)
    return o.calls[0]["out"]


def judge(res, case, o, miss, label, hit=None, f=None, out=None):
    stack = o.world.stack
    f = case["faulted"] if f is None else f
    op = case["ops"][f]
    rec = o.calls[f]
    out = rec["out"] if out is None else out
    fclass = history.fault_class(case["faults"]) if case["faults"] else label
    dflt = "defaults" if (op[2].get("default") is S1 or (len(op[1]) > 1 and op[1][1] is S1)) else "nodefaults"
    res.count("miss_equivalence_checks")
    for kind, detail in rec.get("alarms", ()):
        if kind == "BLOCKED_RECV":
            res.violation("read-never-returns:%s:%s" % (stack, op[0]),
                          "%s.%s under %s would not return on a real connection: %s" % (stack, op[0], fclass, detail), case)
            break
    if out[0] != "ret":
        res.violation("read-raises:%s:%s:%s" % (stack, op[0], out[1]),
                      "%s.%s%r %r with ignore_exc raised %s (%s) under %s" % (stack, op[0], op[1], op[2], out[1], out[2], fclass), case)
    elif hit is not None and hit[0] == "ret" and _same_hit(out[1], hit[1]):
        res.count("reads_that_succeeded_despite_the_fault")
    elif hit is not None and hit[0] == "ret" and isinstance(hit[1], dict) and isinstance(out[1], dict) \
            and stack.startswith("hash") and len(case["servers"]) > 1 and _whole_servers(o.world.obj, out[1], hit[1]):
        # several servers: the keys of the failing server are misses, the other servers' items are all there
        res.count("reads_that_lost_exactly_one_servers_keys")
    elif miss[0] == "ret" and not same_shape(out[1], miss[1]):
        res.violation("failure-result-differs-from-miss:%s:%s:%s" % (stack, op[0], dflt + (":items-present" if hit is not None else "")),
                      "%s.%s%r %r under %s returned %r; the same call on an empty healthy server returns %r"
                      % (stack, op[0], op[1], op[2], fclass, out[1], miss[1]), case)
    # still usable afterwards
    fo = [r["out"] for r in o.calls[-2:]]
    if fo == [("ret", True), ("ret", b"still-usable")]:
        res.count("followup_roundtrips_ok")
    else:
        res.violation("unusable-afterwards:%s:%s" % (stack, op[0]),
                      "after %s under %s, set+get returned %r" % (op[0], fclass, fo), case)


def _same_hit(a, b):
    """equal to the undisturbed result (cas tokens may differ between two servers' histories only in value, not shape)"""
    return same_shape(a, b)


def _whole_servers(hc, got, full):
    groups = {}
    for k in full:
        groups.setdefault(hc.hasher.get_node(k), []).append(k)
    for ks in groups.values():
        present = [k in got for k in ks]
        if any(present) and not all(present):
            return False
    return all(k in full and same_shape(got[k], full[k]) for k in got)


PRESENT = {b"k1": (b"value-1", 0), b"k2": (b"value-22", 0), b"k3": (b"value-333", 0), b"warm": (b"w", 0)}


def run_group_present(res, stack, nserv, extra, op, warm, tier, rng):
    """items present: under a fault the read returns the miss result or - if the fault did no harm - the full undisturbed
    result, never part of it"""
    prefill = {i: dict(PRESENT) for i in range(nserv)}
    case = base_case(stack, nserv, extra, op, warm, prefill=prefill)
    miss = miss_reference(case)
    o0 = history.execute(case)
    hit = o0.calls[case["faulted"]]["out"]
    if miss[0] != "ret" or hit[0] != "ret":
        return
    plans, calls = history.single_fault_plans(case, o0, tier, rng)
    for plan in plans:
        c = dict(case)
        c["faults"] = plan
        o = history.execute(c)
        fired = len(o.net.fired)
        res.count("failures_fired", fired)
        judge(res, c, o, miss, "plan", hit=hit)
        res.case((stack, nserv, tuple(sorted(extra.items())), op[0], repr(op[1:]), warm, "present", tuple(sorted(plan.items()))) if fired else None)


def big_batches_present(res, tier, rng):
    """more than a thousand present keys in one multi-key read (a client that slices large requests): a failure anywhere in the
    exchange makes the whole call a miss - {} - not the part that happened to arrive"""
    nkeys = 1500
    items = {b"big%04d" % j: (b"v%d" % j, 0) for j in range(nkeys)}
    keys = ["big%04d" % j for j in range(nkeys)]
    for stack, nserv in (("client", 1), ("pooled", 1), ("hash", 1)):
        for opn in ("get_many", "gets_many"):
            case = base_case(stack, nserv, {}, (opn, (keys,), {}), 0, prefill={0: dict(items)})
            o0 = history.execute(case)
            hit = o0.calls[case["faulted"]]["out"]
            if hit[0] != "ret" or len(hit[1]) != nkeys:
                res.violation("big-batch:undisturbed-read-incomplete:%s:%s" % (stack, opn), "%d of %d present keys returned" % (len(hit[1]) if hit[0] == "ret" else -1, nkeys), case)
                continue
            plans, calls = history.single_fault_plans(case, o0, "quick", rng, reply_faults=False)
            # every socket call of the exchange, one hard fault each (recv faults at each of the ~10 receives)
            plans = [p_ for p_ in plans if list(p_.values())[0] in ("reset", "eof", "timeout", "brokenpipe")]
            for plan in plans:
                c = dict(case)
                c["faults"] = plan
                o = history.execute(c)
                res.count("failures_fired", len(o.net.fired))
                res.count("big_batch_reads_under_faults")
                judge(res, c, o, ("ret", {}), "plan", hit=hit)
                res.case((stack, opn, "big-present", tuple(sorted(plan.items()))) if o.net.fired else None)


def run_group(res, stack, nserv, extra, op, warm, tier, rng):
    case = base_case(stack, nserv, extra, op, warm)
    miss = miss_reference(case)
    if miss[0] != "ret":
        res.violation("miss-itself-raises:%s:%s" % (stack, op[0]), "on an empty healthy server %s raised %r" % (op[0], miss), case)
        return
    o0 = history.execute(case)
    judge(res, case, o0, miss, "nofault")
    res.case(None)
    plans, calls = history.single_fault_plans(case, o0, tier, rng)
    if tier == "thorough" and len(plans) > 2:
        for _ in range(30):
            a, b = rng.sample(plans, 2)
            d = dict(a)
            d.update(b)
            plans.append(d)
    for plan in plans:
        c = dict(case)
        c["faults"] = plan
        o = history.execute(c)
        fired = len(o.net.fired)
        res.count("failures_fired", fired)
        for fk in o.net.fired:
            res.count("fired:" + history.kclass(fk[3]))
        judge(res, c, o, miss, "plan")
        res.case((stack, nserv, tuple(sorted(extra.items())), op[0], repr(op[1:]), warm, tuple(sorted(plan.items()))) if fired else None,
                 {"stack": stack, "servers": nserv, "op": op[0], "kwargs": repr(op[2]), "fault": repr(plan),
                  "result": repr(o.calls[c["faulted"]]["out"]), "miss": repr(miss)} if res.evaluations % 1201 == 0 else None)


def server_down(res, stack, nserv, extra, op, tier):
    """server(s) refusing / timing out / resetting for the duration of the read"""
    for kind in ("refused", "timeout", "reset"):
        for which in (["all"] + list(range(nserv)) if nserv > 1 else ["all"]):
            idxs = list(range(nserv)) if which == "all" else [which]
            for warm in (0, 1):
                pre = [("health", (i, kind), {}) for i in idxs]
                post = [("health", (i, "up"), {}) for i in idxs] + [("advance", (500,), {})]
                if warm:
                    # connection exists, then the server goes down
                    case = base_case(stack, nserv, extra, op, 0, pre_ops=[("get", ("warm",), {})] + pre, post_health=post)
                else:
                    case = base_case(stack, nserv, extra, op, 0, pre_ops=pre, post_health=post)
                miss = miss_reference(case)
                o = history.execute(case)
                res.count("failures_fired")
                res.count("server_down_scenarios")
                judge(res, case, o, miss, "server-%s-%s" % (kind, which))
                res.case((stack, nserv, tuple(sorted(extra.items())), op[0], repr(op[1:]), "down", kind, which, warm))


def server_down_long(res, stack, nserv, extra, op, tier):
    """the server stays down past retry_timeout and dead_timeout: the same read, repeated after each wait, is a miss
    every time (the revival attempts of the fail-over bookkeeping run under ignore_exc too)"""
    for kind in ("refused", "reset"):
        for which in (["all"] + list(range(nserv)) if nserv > 1 else ["all"]):
            idxs = list(range(nserv)) if which == "all" else [which]
            pre = [("health", (i, kind), {}) for i in idxs]
            ops_mid = [op, ("advance", (11,), {}), op, ("advance", (70,), {}), op, ("advance", (500,), {}), op]
            post = [("health", (i, "up"), {}) for i in idxs] + [("advance", (500,), {})]
            case = base_case(stack, nserv, extra, op, 0, pre_ops=pre + ops_mid[:-1], post_health=post)
            miss = miss_reference(case)
            o = history.execute(case)
            first = len(pre)
            for f in (first, first + 2, first + 4, first + 6):
                assert case["ops"][f] == op
                res.count("failures_fired")
                judge(res, case, o, miss, "server-%s-%s-for-long" % (kind, which), f=f)
            res.count("server_down_long_scenarios")
            res.case((stack, nserv, tuple(sorted(extra.items())), op[0], repr(op[1:]), "downlong", kind, which))


def judge_filled(res, case):
    """case['fill_after'] = index of the multi-key read whose returned dict the caller fills in before the next call"""
    import copy
    fidx = case["fill_after"]
    snap = {}

    def after_call(w, i, op, rec):
        if i == fidx and rec["out"][0] == "ret" and isinstance(rec["out"][1], dict):
            snap["out"] = copy.deepcopy(rec["out"])
            for k in ("k1", "k2", "k3", b"k1"):
                rec["out"][1][k] = b"filled-in-by-the-caller"
    miss = miss_reference(case)
    c1 = dict(case)
    c1["faulted"] = fidx
    miss_first = miss_reference(c1)
    o = history.execute(case, after_call=after_call)
    judge(res, c1, o, miss_first, "all-refused", f=fidx, out=snap.get("out"))
    judge(res, case, o, miss, "all-refused,after-the-caller-filled-the-previous-result")
    return o


def caller_fills_result(res, stack, nserv, extra, tier):
    """read-through pattern: the caller keeps the dict a failed multi-key read returned and fills it in; later failed
    reads on the same object must still be misses (the miss result is the caller's own object, not shared state)"""
    import copy
    for multi in ("get_many", "gets_many"):
        for later in (("get", ("k1",), {}), ("get", ("k1", S1), {}), ("gets", ("k1",), {}), (multi, (["k1", "k2"],), {}),
                      ("gat", ("k1",), {"expire": 9})):
            first_op = (multi, (["k1", "k2", "k3"],), {})
            pre = [("health", (i, "refused"), {}) for i in range(nserv)]
            post = [("health", (i, "up"), {}) for i in range(nserv)] + [("advance", (500,), {})]
            case = base_case(stack, nserv, extra, later, 0, pre_ops=pre + [first_op], post_health=post)
            case["fill_after"] = len(pre)
            res.count("failures_fired", 2)
            res.count("caller_fills_result_scenarios")
            judge_filled(res, case)
            res.case((stack, nserv, tuple(sorted(extra.items())), multi, later[0], repr(later[1:]), "fills"))


def bad_items(res, stack, nserv, extra, op, tier):
    """undeserialisable / undecodable items stored on the server"""
    from pymemcache import serde as sd
    keys = [b"k1", b"k2", b"k3"]
    scenarios = [
        ("raising", {k: (b"whatever", 99) for k in keys}),
        ("pickle", {k: (b"\xff\xfe not utf8", sd.FLAG_TEXT) for k in keys}),
        ("pickle", {k: (b"not-a-number", sd.FLAG_INTEGER) for k in keys}),
        ("pickle", {b"k1": (b"1x2", sd.FLAG_INTEGER), b"k2": (b"\xff", sd.FLAG_TEXT), b"k3": (b"x", sd.FLAG_LONG)}),
        # large items: the rest of the reply is still on its way when the first item turns out to be unusable
        ("raising", {k: (b"W" * 3000, 99) for k in keys}),
        ("pickle", {k: (b"\xff" * 5000, sd.FLAG_TEXT) for k in keys}),
    ]
    for serde, items in scenarios:
        prefill = {i: dict(items) for i in range(nserv)}
        case = base_case(stack, nserv, extra, op, 0, prefill=prefill, serde=serde)
        miss = miss_reference(case)
        o = history.execute(case)
        res.count("failures_fired")
        res.count("bad_item_scenarios")
        judge(res, case, o, miss, "undeserialisable-item(%s)" % serde)
        res.case((stack, nserv, op[0], repr(op[1:]), "baditem", serde, repr(sorted(items.items()))[:60]))


def groups():
    out = []
    for stack, nserv, extra in STACKS:
        for wd in (False, True):
            for op in reads_for(stack, wd):
                out.append((stack, nserv, extra, op))
    return out


def shard(tier, seed, idx, n):
    res = common.Result()
    gs = groups()
    work = 0
    for gi, (stack, nserv, extra, op) in enumerate(gs):
        for warm in (0, 1):
            work += 1
            if work % n == idx:
                run_group(res, stack, nserv, extra, op, warm, tier, random.Random(seed * 7919 + work))
            work += 1
            if work % n == idx:
                run_group_present(res, stack, nserv, extra, op, warm, tier, random.Random(seed * 7919 + work))
        work += 1
        if work % n == idx:
            server_down(res, stack, nserv, extra, op, tier)
            server_down_long(res, stack, nserv, extra, op, tier)
            bad_items(res, stack, nserv, extra, op, tier)
    for si, (stack, nserv, extra) in enumerate(STACKS):
        if si % n == idx:
            caller_fills_result(res, stack, nserv, extra, tier)
    if idx == n - 1:
        big_batches_present(res, tier, random.Random(seed + 77))
    res.extra["exhaustive"] = True
    res.extra["exhaustive_part"] = "single-fault plans over every socket call of every read on every stack; server-down and bad-item scenarios"
    return res


def replay(case):
    res = common.Result()
    if "fill_after" in case:
        o = judge_filled(res, case)
        print("outcomes:", [r["out"] for r in o.calls])
        res.case(("replay",))
        for c in REQUIRED_COUNTERS:
            res.count(c)
        return res
    miss = miss_reference(case)
    o = history.execute(case)
    judge(res, case, o, miss, "replay")
    print("miss reference:", miss)
    print("outcomes:", [r["out"] for r in o.calls])
    res.case(("replay",))
    for c in REQUIRED_COUNTERS:
        res.count(c)
    return res
