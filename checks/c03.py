"""C03 - reply parsing does not depend on how the byte stream is split.

Monitor: differential oracle over delivery schedules chosen by the checker at the
socket_module seam.  The same request against the same server state is answered with the
same reply stream, delivered (a) whole - whose result is first checked against the
reference server's ground truth - and (b) under every cut set of the enumeration, with
EINTR injected between pieces; results must be identical (value and type, or exception
class)."""
import itertools
import random

from vk import common, driver, fakenet, history

PROPERTY = "C03"
LEVEL = "exploration"
RULE = ("scenario corpus (get/gets/gat/gats/get_many/gets_many hit+miss, values with CR/LF/END/VALUE text, sizes 0,1,2 and "
        "around 4096/8192/12288, stats incl. ITEM lines and empty values, every store/delete/incr/touch/version/flush line, "
        "error lines, raw_command with 1-,2-,5-,7-byte end tokens and tokens with earlier partial matches, the AWS config reply) "
        "x segmentations: every subset of cut positions for streams <=14 B (thorough <=20 B), all 1-,2-,3-cut sets (sampled above "
        "a size), single bytes, RECV_SIZE-aligned cuts +-1, cuts inside every CRLF/end token, EINTR before each piece. "
        "Non-trivial = >=1 cut or EINTR; distinct by (scenario, cut set, EINTR set).")
ASSUMPTIONS = [
    "the single-piece delivery is the reference; it is itself compared with RefServer ground truth where the scenario states an expectation",
    "recv(n) never returns more than n bytes (RECV_SIZE honoured)",
]
MIN_NONTRIVIAL = {"quick": 40000, "thorough": 1000000}
REQUIRED_COUNTERS = ["deliveries_compared", "pieces_delivered", "ground_truth_checks"]
SHARDS = {"quick": 16, "thorough": 16}
TIMEOUT = {"quick": 900, "thorough": 7200}

BIG = {n: bytes((i * 7 + n) % 251 for i in range(n)) for n in (4094, 4095, 4096, 4097, 4098, 8190, 8191, 8192, 8193, 8194, 12289)}


PROBE_KEY = "zz-next-call-probe"
# raw_command scenarios whose end token occurs before the end of the server's reply: what follows the token is the
# caller's business (whole delivery happens to swallow it, split delivery leaves it on the socket) - no follow-up there
TOKEN_BEFORE_END = {"raw-version-1byte-mid", "raw-get-token-in-value"}


def scenarios():
    """-> list of (name, prefill{key:(value,flags)}, op, cfg, expect_or_None, fault_or_None, server_kw)"""
    S = []

    def add(name, prefill, op, expect=None, cfg=None, fault=None, server_kw=None):
        S.append((name, prefill, op, cfg or {"default_noreply": False}, expect, fault, server_kw or {}))

    one = {b"a": (b"x", 0)}
    add("get-hit-min", one, ("get", ("a",), {}), ("ret", b"x"))
    add("get-miss", {}, ("get", ("a",), {}), ("ret", None))
    add("gets-hit", one, ("gets", ("a",), {}), None)
    add("gets-miss", {}, ("gets", ("a",), {}), ("ret", (None, None)))
    add("gat-hit", one, ("gat", ("a", 10), {}), ("ret", b"x"))
    add("gats-hit", one, ("gats", ("a", 10), {}), None)
    vals = {
        "empty": b"", "crlf": b"\r\n", "cr": b"\r", "lf": b"\n", "end": b"END\r\n", "end2": b"END",
        "valueline": b"VALUE k 0 1\r\n", "endscr": b"abc\r", "crlfcrlf": b"\r\n\r\n", "stored": b"STORED\r\n",
        "mix": b"a\r\nEND\r\nVALUE a 0 1\r\nb\r\nEND\r\n", "two": b"ab",
    }
    for n, v in vals.items():
        add("get-val-" + n, {b"k": (v, 5)}, ("get", ("k",), {}), ("ret", v))
    add("gets-val-crlf", {b"k": (b"\r\n\r", 0)}, ("gets", ("k",), {}), None)
    multi = {b"k1": (b"v1", 0), b"k2": (b"", 1), b"k3": (b"\r\nEND\r\n", 2), b"k4": (b"4444", 3), b"k5": (b"5\r", 4)}
    add("get_many-1", multi, ("get_many", (["k1"],), {}), ("ret", {"k1": b"v1"}))
    add("get_many-3", multi, ("get_many", (["k1", "zz", "k3", "k2"],), {}),
        ("ret", {"k1": b"v1", "k3": b"\r\nEND\r\n", "k2": b""}))
    add("get_many-5", multi, ("get_many", (["k1", "k2", "k3", "k4", "k5"],), {}),
        ("ret", {"k1": b"v1", "k2": b"", "k3": b"\r\nEND\r\n", "k4": b"4444", "k5": b"5\r"}))
    add("gets_many-3", multi, ("gets_many", (["k5", "k4", "k1"],), {}), None)
    add("get_many-allmiss", {}, ("get_many", (["k1", "k2"],), {}), ("ret", {}))
    for n, v in BIG.items():
        add("get-big-%d" % n, {b"big": (v, 0)}, ("get", ("big",), {}), ("ret", v))
    add("get_many-big2", {b"b1": (BIG[4095], 0), b"b2": (BIG[4097], 0), b"s": (b"s", 0)},
        ("get_many", (["b1", "s", "b2"],), {}), ("ret", {"b1": BIG[4095], "s": b"s", "b2": BIG[4097]}))
    add("stats", one, ("stats", (), {}), None)
    add("stats-settings", one, ("stats", ("settings",), {}), None)
    # values that end like a terminator line (a proxy's role, a health word): the reply ends where END stands alone
    add("stats-values-like-terminators", one, ("stats", (), {}), None,
        server_kw={"extra_stats": [b"STAT role BACKEND", b"STAT health OK", b"STAT last_cmd END", b"STAT state STORED", b"STAT note ERROR"]})
    add("stats-cachedump", multi, ("stats", ("cachedump", "1", "10"), {}), None)
    add("stats-items", one, ("stats", ("items",), {}), None)
    add("set-stored", {}, ("set", ("a", b"v"), {}), ("ret", True))
    add("add-notstored", one, ("add", ("a", b"v"), {}), ("ret", False))
    add("add-stored", {}, ("add", ("a", b"v"), {}), ("ret", True))
    add("replace-notstored", {}, ("replace", ("a", b"v"), {}), ("ret", False))
    add("append-stored", one, ("append", ("a", b"v"), {}), ("ret", True))
    add("prepend-notstored", {}, ("prepend", ("a", b"v"), {}), ("ret", False))
    add("cas-notfound", {}, ("cas", ("a", b"v", 1), {}), ("ret", None))
    add("cas-exists", one, ("cas", ("a", b"v", 99999), {}), ("ret", False))
    add("cas-stored", one, ("cas", ("a", b"v", 1), {}), ("ret", True))
    add("set_many-3", {}, ("set_many", ({"a": b"1", "b": b"2", "c": b"3"},), {}), ("ret", []))
    add("delete-deleted", one, ("delete", ("a",), {}), ("ret", True))
    add("delete-notfound", {}, ("delete", ("a",), {}), ("ret", False))
    add("delete_many-3", one, ("delete_many", (["a", "b", "c"],), {}), ("ret", True))
    add("incr-num", {b"n": (b"41", 0)}, ("incr", ("n", 1), {}), ("ret", 42))
    add("incr-big", {b"n": (b"18446744073709551614", 0)}, ("incr", ("n", 1), {}), ("ret", 18446744073709551615))
    add("incr-notfound", {}, ("incr", ("n", 1), {}), ("ret", None))
    add("incr-nonnum", {b"n": (b"x", 0)}, ("incr", ("n", 1), {}), ("exc", "MemcacheClientError"))
    add("decr-num", {b"n": (b"41", 0)}, ("decr", ("n", 50), {}), ("ret", 0))
    add("touch-touched", one, ("touch", ("a", 5), {}), ("ret", True))
    add("touch-notfound", {}, ("touch", ("a", 5), {}), ("ret", False))
    add("version", {}, ("version", (), {}), ("ret", b"1.6.21"))
    add("flush_all", one, ("flush_all", (), {}), ("ret", True))
    add("cache_memlimit", {}, ("cache_memlimit", (64,), {}), ("ret", True))
    add("shutdown-disabled", {}, ("shutdown", (), {}), ("exc", "MemcacheUnknownCommandError"))
    for variant, exc in (("error", "MemcacheUnknownCommandError"), ("client_error", "MemcacheClientError"),
                         ("server_error", "MemcacheServerError"), ("garbage", "MemcacheUnknownError")):
        add("get-" + variant, one, ("get", ("a",), {}), ("exc", exc), fault=("rline", 0, variant))
        add("set-" + variant, one, ("set", ("a", b"v"), {}), ("exc", exc), fault=("rline", 0, variant))
        add("set_many-2nd-" + variant, {}, ("set_many", ({"a": b"1", "b": b"2", "c": b"3"},), {}), ("exc", exc),
            fault=("rline", 1, variant))
    add("raw-version-crlf", {}, ("raw_command", ("version",), {}), ("ret", b"VERSION 1.6.21"))
    add("raw-version-lf", {}, ("raw_command", ("version", "\n"), {}), ("ret", b"VERSION 1.6.21\r"))
    add("raw-version-1byte-mid", {}, ("raw_command", ("version", "6"), {}), ("ret", b"VERSION 1."))
    add("raw-get-END", {b"h": (b"hello", 0)}, ("raw_command", (b"get h", b"END\r\n"), {}),
        ("ret", b"VALUE h 0 5\r\nhello\r\n"))
    add("raw-get-partial-matches", {b"h": (b"xENxEND\rxEND\r", 0)}, ("raw_command", (b"get h", b"END\r\n"), {}),
        ("ret", b"VALUE h 0 13\r\nxENxEND\rxEND\r\r\n"))
    add("raw-get-token-in-value", {b"h": (b"aEND\r\nb", 0)}, ("raw_command", (b"get h", b"END\r\n"), {}),
        ("ret", b"VALUE h 0 7\r\na"))
    nodes = [("n1.cache.amazonaws.com", "10.1.0.1", 11211), ("n2.cache.amazonaws.com", "10.1.0.2", 11212)]
    add("raw-config-7byte", {}, ("raw_command", (b"config get cluster", b"\n\r\nEND\r\n"), {}),
        None, server_kw={"cluster_config": (12, nodes)})
    add("raw-stats-END", {}, ("raw_command", (b"stats", b"END\r\n"), {}), None)
    # long lines (a reader that counts pieces instead of bytes), receive-size multiples through the token reader
    longkey = "K" * 240
    add("get-long-key", {longkey.encode(): (b"v", 0)}, ("get", (longkey,), {}), ("ret", b"v"))
    add("get_many-long-keys", {longkey.encode(): (b"v", 0), b"J" * 200: (b"w", 1)},
        ("get_many", ([longkey, b"J" * 200],), {}), ("ret", {longkey: b"v", b"J" * 200: b"w"}))
    add("set-long-server-error", {}, ("set", ("a", b"v"), {}), ("exc", "MemcacheServerError"), fault=("rline", 0, "long_server_error"))
    add("version-long", {}, ("version", (), {}), ("ret", b"1.6.21-" + b"x" * 120), server_kw={"version": b"1.6.21-" + b"x" * 120})
    for n in (4096 - 19, 4096, 5000, 8192 - 19, 8192):
        val = BIG[4096][:n] if n <= 4096 else (BIG[8192] + BIG[4096])[:n]
        hdr = b"VALUE big 0 %d\r\n" % n
        add("raw-get-big-%d" % n, {b"big": (val, 0)}, ("raw_command", (b"get big", b"END\r\n"), {}), ("ret", hdr + val + b"\r\n"))
    logval = (BIG[4096][:4100] + b"\r\nERROR disk full on shard 7\r\nSERVER_ERROR out of memory\r\nCLIENT_ERROR bad data chunk\r\n"
              + BIG[4096][:900] + b"\r\nEND of log\r\nERROR again\r\n" + BIG[4096][:300])
    hdr = b"VALUE big 0 %d\r\n" % len(logval)
    add("raw-get-big-log-END", {b"big": (logval, 0)}, ("raw_command", (b"get big", b"\r\nEND\r\n"), {}), ("ret", hdr + logval))
    add("raw-get-big-log-7byte", {b"big": (logval + b"\n", 0)}, ("raw_command", (b"get big", b"\n\r\nEND\r\n"), {}),
        ("ret", b"VALUE big 0 %d\r\n" % (len(logval) + 1) + logval))
    add("get-big-log", {b"big": (logval, 0)}, ("get", ("big",), {}), ("ret", logval))
    # values of 64 KiB and more (a reader with a separate path for big values)
    for n in (65535, 65536, 70001):
        v_ = bytes((i * 11 + n) % 253 for i in range(n))
        add("get-huge-%d" % n, {b"huge": (v_, 0)}, ("get", ("huge",), {}), ("ret", v_))
    v_ = bytes((i * 13) % 253 for i in range(65536))
    add("get_many-huge-and-small", {b"huge": (v_, 0), b"s": (b"small", 0)}, ("get_many", (["s", "huge", "nope"],), {}), ("ret", {"s": b"small", "huge": v_}))
    add("raw-config-ERROR-7byte", {}, ("raw_command", (b"config get cluster", b"\n\r\nEND\r\n"), {}),
        ("exc", "MemcacheUnknownCommandError"))
    add("raw-get-END-server_error", {b"h": (b"hello", 0)}, ("raw_command", (b"get h", b"END\r\n"), {}),
        ("exc", "MemcacheServerError"), fault=("rline", 0, "server_error"))
    add("raw-get-END-client_error", {b"h": (b"hello", 0)}, ("raw_command", (b"get h", b"END\r\n"), {}),
        ("exc", "MemcacheClientError"), fault=("rline", 0, "client_error"))
    add("aws-discovery", {}, ("AWS", (), {}), ("ret", ["10.1.0.1:11211", "10.1.0.2:11212"]),
        server_kw={"cluster_config": (12, nodes)})
    return S


STREAMS = {}          # scenario -> {call id: bytes delivered}, filled by the single-piece delivery


def keyword_cuts(stream, tier, rng):
    """cut schedules aligned with what the stream CONTAINS: 0..8 bytes into every protocol keyword and end token that occurs
    in it, alone and combined with a cut at / shortly after the end of that line (and with receive-size boundaries) - a
    reader that looks at the front of a window, or keeps a tail of len(token)-1 bytes, is sensitive to exactly these"""
    L = len(stream)
    words = (b"ERROR", b"CLIENT_ERROR", b"SERVER_ERROR", b"END", b"VALUE", b"STAT", b"STORED", b"\n\r\nEND")
    occ = []
    for wd in words:
        at = stream.find(wd)
        while at != -1:
            occ.append((at, wd))
            at = stream.find(wd, at + 1)
    if len(occ) > (60 if tier == "quick" else 400):
        occ = rng.sample(occ, 60 if tier == "quick" else 400)
    seen = set()
    for at, wd in occ:
        eol = stream.find(b"\r\n", at)
        for j in range(0, 9):
            c1 = at + j
            if not 0 < c1 < L:
                continue
            outs = [(c1,)]
            if eol != -1:
                for d in (0, 1, 2, 3, 9):
                    if c1 < eol + d < L:
                        outs.append((c1, eol + d))
                        if L > 4096:
                            outs.append(tuple(sorted({4096, c1, eol + d})) if 4096 < c1 else (c1, eol + d))
            for c in outs:
                if c not in seen:
                    seen.add(c)
                    yield c, ()


def deliver(sc, segspec):
    """Run scenario under a delivery schedule -> (outcome, reply_len, pieces)"""
    name, prefill, op, cfg, expect, fault, server_kw = sc
    prefill = dict(prefill)
    prefill[PROBE_KEY.encode()] = (b"probe-value", 0)
    case = {"stack": "client", "servers": [("mc1", 11211)], "cfg": cfg, "ops": [op], "faulted": 0,
            "faults": {}, "seg": segspec, "prefill": {0: prefill}}
    spec = {"stack": "client", "servers": case["servers"], "cfg": dict(cfg), "seg": segspec,
            "prefill": {0: prefill}}
    w = driver.World(spec)
    srv = w.servers[("mc1", 11211)]
    for k, v in server_kw.items():
        setattr(srv, k, v)
    net = w.net
    if segspec == ("whole",):
        net.capture = {}
        STREAMS[name] = net.capture
    if op[0] == "AWS":
        from pymemcache.client.ext.aws_ec_client import AWSElastiCacheHashClient
        net.add_server("mc1.cfg.cache.amazonaws.com", 11211, srv)
        net.begin_call(0)
        try:
            c = AWSElastiCacheHashClient("mc1.cfg.cache.amazonaws.com:11211", socket_module=net)
            out = ("ret", sorted(c.clients))
        except Exception as e:
            out = ("exc", type(e).__name__)
        net.end_call()
    else:
        if fault is not None:
            net.faults = {(0, fakenet.T_SENDALL): fault}
        out = w.call(0, op)
        if out[0] == "exc":
            out = out[:2]
        # the next call on the same object: a reader that stops early (or late) under some segmentation leaves the
        # connection at a different stream position than the single-piece delivery does
        if op[0] not in ("flush_all", "shutdown") and name not in TOKEN_BEFORE_END:
            nxt = w.call(1, ("get", (PROBE_KEY,), {}))
            out = out + (("next",) + tuple(nxt[:2]),)
    w.close()
    return out, net.counts.get("bytes_delivered", 0), net.counts.get("pieces", 0)


def cutsets(L, tier, rng, scenario_name):
    """yield (cuts tuple, eintr tuple)"""
    if L <= 1:
        yield (), (0,)
        return
    positions = list(range(1, L))
    limit = 14 if tier == "quick" else 20
    if L <= limit:
        for r in range(1, len(positions) + 1):
            for c in itertools.combinations(positions, r):
                yield c, ()
    else:
        big = L > 600
        if big:
            near = set(range(1, 40)) | set(range(L - 40, L))
            for k in range(1, L // 4096 + 2):
                near |= set(range(4096 * k - 24, 4096 * k + 24))
            near = sorted(p for p in near if 0 < p < L)
            ones = near + rng.sample(positions, 150 if tier == "quick" else 3000)
        else:
            ones = positions
        for c in ones:
            yield (c,), ()
        two = list(itertools.combinations(positions, 2)) if not big else None
        cap2 = (3000 if tier == "quick" else 40000) if not big else (150 if tier == "quick" else 4000)
        if two is not None:
            for c in (two if len(two) <= cap2 else rng.sample(two, cap2)):
                yield c, ()
        else:
            for _ in range(cap2):
                yield tuple(sorted(rng.sample(near, 1) + rng.sample(positions, 1))), ()
        cap3 = (1500 if tier == "quick" else 40000) if not big else (150 if tier == "quick" else 4000)
        if L <= 40:
            three = list(itertools.combinations(positions, 3))
            for c in (three if len(three) <= cap3 else rng.sample(three, cap3)):
                yield c, ()
        else:
            for _ in range(cap3):
                yield tuple(sorted(rng.sample(positions, 3))), ()
        for _ in range((200 if tier == "quick" else 3000) if not big else (40 if tier == "quick" else 600)):
            k = rng.randint(4, min(12, L - 1))
            yield tuple(sorted(rng.sample(positions, k))), ()
        # RECV_SIZE-aligned
        al = sorted({p for k in range(1, L // 4096 + 2) for p in (4096 * k - 1, 4096 * k, 4096 * k + 1,
                                                                   L - 4096 * k - 1, L - 4096 * k, L - 4096 * k + 1) if 0 < p < L})
        if len(al) <= 24:
            for r in range(1, min(len(al), 4) + 1):
                for c in itertools.combinations(al, r):
                    yield c, ()
        else:
            # very long streams: every single aligned cut, every pair of neighbouring ones, and a sample of pairs / triples
            for c in al:
                yield (c,), ()
            for a_, b_ in zip(al, al[1:]):
                yield (a_, b_), ()
            for _ in range(60 if tier == "quick" else 1500):
                yield tuple(sorted(rng.sample(al, rng.choice((2, 3))))), ()
    # single bytes (bounded to keep big values affordable)
    if L <= 600 or tier == "thorough" or L in (4111, 8209):
        yield tuple(positions), ()
    # EINTR before each piece, once per position; and everywhere with single bytes
    for c in (positions if L <= 64 else rng.sample(positions, 64 if L <= 600 else 12)):
        yield (c,), (c,)
        yield (c,), (0,)
    # several interrupted system calls in a row in one gap
    for c in (positions if L <= 24 else rng.sample(positions, 8)):
        yield (c,), (c, c)
        yield (c,), (0, 0, 0, c, c, c)
    if L <= 64:
        yield tuple(positions), tuple([0] + positions)


def same(a, b):
    if a[0] != b[0]:
        return False
    if a[2:] != b[2:]:          # the follow-up call on the same object
        return False
    if a[0] == "ret":
        return a[1] == b[1] and type(a[1]) is type(b[1]) and repr(a[1]) == repr(b[1])
    return a[1] == b[1]


def shard(tier, seed, idx, n):
    res = common.Result()
    scs = scenarios()
    rng0 = random.Random(seed)
    work = 0
    for si, sc in enumerate(scs):
        name = sc[0]
        ref, L, _ = deliver(sc, ("whole",))
        if idx == si % n:
            res.count("ground_truth_checks")
            exp = sc[4]
            if exp is not None and not (ref[:2] == tuple(exp)[:2]):
                res.violation("whole-delivery-wrong:" + name, "single-piece delivery gives %r, reference server says %r"
                              % (ref, exp), (name, (), ()))
        rng = random.Random(seed * 31 + si)
        stream = bytes(STREAMS.get(name, {}).get(0, b""))
        extra = list(keyword_cuts(stream, tier, random.Random(seed * 37 + si))) if len(stream) > (14 if tier == "quick" else 20) else []
        res.count("keyword_aligned_schedules", len(extra) if idx == si % n else 0)
        for ci, (cuts, eintr) in enumerate(itertools.chain(cutsets(L, tier, rng, name), extra)):
            work += 1
            if work % n != idx:
                continue
            out, L2, pieces = deliver(sc, ("cuts", list(cuts), list(eintr)))
            res.count("deliveries_compared")
            res.count("pieces_delivered", pieces)
            res.maximum("max_pieces_in_one_reply", pieces)
            if eintr:
                res.count("deliveries_with_eintr")
            nt = (name, cuts, eintr) if (cuts or eintr) else None
            res.case(nt, {"scenario": name, "reply_bytes": L, "cuts": list(cuts)[:12], "eintr": list(eintr)[:6],
                          "result": repr(out)[:80]} if res.evaluations % 9001 == 0 else None)
            if not same(out, ref):
                res.violation("segmentation-dependent:%s" % _mech(sc),
                              "scenario %s: whole -> %s ; cuts %r eintr %r -> %s"
                              % (name, repr(ref)[:120], list(cuts)[:20], list(eintr)[:8], repr(out)[:120]),
                              (name, cuts, eintr))
    res.extra["scenarios"] = len(scs) if idx == 0 else 0
    res.extra["exhaustive"] = True
    res.extra["exhaustive_part"] = "all cut subsets for reply streams <= %d bytes; all single cuts for every stream" % (14 if tier == "quick" else 20)
    return res


def _mech(sc):
    op = sc[2][0]
    if op == "raw_command" or op == "AWS":
        return "token-reader:" + op
    if op in ("get", "gets", "gat", "gats", "get_many", "gets_many"):
        return "value-reader:" + op
    return "line-reader:" + op


def replay(case):
    res = common.Result()
    name, cuts, eintr = case
    sc = [s for s in scenarios() if s[0] == name][0]
    ref, L, _ = deliver(sc, ("whole",))
    out, _, pieces = deliver(sc, ("cuts", list(cuts), list(eintr)))
    res.case((name, cuts, eintr))
    print("whole:", repr(ref)[:200], "\nsplit:", repr(out)[:200])
    if not same(out, ref):
        res.violation("segmentation-dependent:%s" % _mech(sc), "whole %r vs split %r" % (ref, out), case)
    return res
