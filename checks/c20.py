"""C20 - key validation accepts exactly the documented legal keys.

Monitors: (1) an icontract postcondition on the real check_key_helper (patched into both
modules that imported it by name: client.base and client.hash) for the normal-return path,
(2) a recording wrapper for the raise path (icontract does not run postconditions when the
function raises), both compared with an independent legality predicate; (3) the bytes that
reach the wire for accepted keys (FakeNet strict parser).  Entry points: check_key_helper,
Client.check_key, PooledClient.check_key, HashClient operations."""
import itertools
import random

from vk import common, driver, refs

PROPERTY = "C20"
LEVEL = "exploration"
RULE = ("all keys of length 1..3 over 11 byte classes (NUL,TAB,LF,VT,FF,CR,SPACE,other-C0,printable,DEL,high; thorough: "
        "every member of the small classes), every byte value at every position of 10-byte keys and at first/middle/last of "
        "250-byte keys, byte lengths 248..252 for ASCII and 2/3/4-byte UTF-8 characters, prefixes of length 0,1,125,249,250, "
        "str and bytes, allow_unicode_keys on/off; entry points: the helper, check_key of Client/PooledClient, operations of the three classes on a healthy server, on a HashClient with no server left and on clients whose server refuses connections (20 operations in rotation, the mapping protocol included). Non-trivial = key has a non-alphanumeric byte, is within 2 "
        "bytes of the limit, or has a prefix; distinct by (key, unicode, prefix, entry point).")
ASSUMPTIONS = [
    "legal(key) per the statement: encoded (ascii / utf8) + prefixed form is <=250 bytes and has no byte in {00,09,0a,0b,0c,0d,20}",
    "empty prefixed keys are excluded (C02's subject); only well-formed Unicode str keys are generated",
]
MIN_NONTRIVIAL = {"quick": 30000, "thorough": 250000}
REQUIRED_COUNTERS = ["contract_evaluations", "raise_path_evaluations", "wire_keys_checked",
                     "accepted", "rejected"]
SHARDS = {"quick": 16, "thorough": 16}

CLASSES = {
    "NUL": [0x00], "TAB": [0x09], "LF": [0x0A], "VT": [0x0B], "FF": [0x0C], "CR": [0x0D], "SP": [0x20],
    "C0": [0x01, 0x08, 0x0E, 0x1B, 0x1C, 0x1D, 0x1E, 0x1F], "PR": [0x61, 0x21, 0x7E, 0x30, 0x2D], "DEL": [0x7F],
    "HI": [0x80, 0x85, 0xA0, 0xC3, 0xFF],
}


class Broken(Exception):
    pass


def install(res):
    """Wrap the real helper; returns state dict used to fetch the last verdict."""
    import icontract
    import pymemcache.client.base as base
    import pymemcache.client.hash as hashmod
    orig = base.check_key_helper
    st = {"last": None, "orig": orig}

    def result_is_prefix_plus_encoded_legal_key(key, allow_unicode_keys, key_prefix, result):
        res.count("contract_evaluations")
        legal, wire = refs.key_legal(key, allow_unicode_keys, key_prefix)
        if key_prefix + (key.encode("utf8", "surrogatepass") if isinstance(key, str) else key) == b"":
            return True                      # empty prefixed key: outside C20
        if not legal:
            st["last"] = "accepted an illegal key: returned %r" % (result,)
            return False
        if result != wire or type(result) is not bytes:
            st["last"] = "returned %r, expected %r" % (result, wire)
            return False
        return True

    def check_key_helper(key, allow_unicode_keys, key_prefix=b"", *extra, **kwextra):
        # extra parameters a refactor may add to the helper are passed through untouched
        try:
            return orig(key, allow_unicode_keys, key_prefix, *extra, **kwextra)
        except BaseException as e:
            # raise path: must be MemcacheIllegalInputError and the key must be illegal
            res.count("raise_path_evaluations")
            legal, wire = refs.key_legal(key, allow_unicode_keys, key_prefix)
            from pymemcache.exceptions import MemcacheIllegalInputError
            if type(e) is not MemcacheIllegalInputError:
                st["raise_bad"] = "rejection raised %s instead of MemcacheIllegalInputError" % type(e).__name__
            elif legal and wire != b"":
                st["raise_bad"] = "rejected a legal key (%s)" % (str(e)[:60],)
            raise

    wrapped = icontract.ensure(result_is_prefix_plus_encoded_legal_key, error=Broken)(check_key_helper)
    st["orig"] = orig
    base.check_key_helper = wrapped
    hashmod.check_key_helper = wrapped
    return st


class PrintsDifferentlyStr(str):
    def __str__(self):
        return "Colour.RED"

    def __repr__(self):
        return "<Colour.RED: %s>" % str.__repr__(self)

    def __format__(self, spec):
        return "Colour.RED"


class PrintsDifferentlyBytes(bytes):
    def __str__(self):
        return "b-tagged"

    def __repr__(self):
        return "<tagged %s>" % bytes.__repr__(self)


def gen_keys(tier, seed):
    """yield (key, allow_unicode, prefix)"""
    reps = {c: (v if tier == "thorough" and len(v) <= 8 else v[:1]) for c, v in CLASSES.items()}
    names = list(CLASSES)
    for n in (1, 2, 3):
        for combo in itertools.product(names, repeat=n):
            pools = [reps[c] if n < 3 else reps[c][:1] for c in combo]
            for bs in itertools.product(*pools):
                kb = bytes(bs)
                for uni in (False, True):
                    yield kb, uni, b""
                    if all(b < 0x80 for b in bs):
                        yield kb.decode("ascii"), uni, b""
                yield kb, False, b"p:"
    # every byte value at every position of a 10-byte key; first/middle/last of a 250-byte key
    for b in range(256):
        for pos in range(10):
            kb = bytearray(b"abcdefghij")
            kb[pos] = b
            yield bytes(kb), False, b""
            yield bytes(kb), True, b"pre"
        for pos in (0, 125, 249):
            kb = bytearray(b"k" * 250)
            kb[pos] = b
            yield bytes(kb), False, b""
    # every code point 0..0x2ff as a str key character (str.split would treat 0x1c-0x1f, 0x85, 0xa0 as space)
    for cp in list(range(0x300)) + [0x2028, 0x2029, 0x3000, 0x1680, 0xFEFF, 0x10000, 0x1F600]:
        for uni in (False, True):
            yield "a" + chr(cp) + "b", uni, b""
            yield chr(cp), uni, b"x"
    # keys that Unicode normalisation would change (legal as they are, distinct from their normalised twins)
    for k_ in ("cafe\u0301", "caf\u00e9", "\u212b", "\u00c5", "A\u030a", "\u1100\u1161", "\uac00", "\ufb01", "fi", "\u2126", "\u03a9", "x\u0323\u0307", "x\u0307\u0323"):
        for uni in (False, True):
            yield k_, uni, b""
            yield k_, uni, b"p:"
    # lengths around the limit
    for plen in (0, 1, 125, 249, 250):
        prefix = b"P" * plen
        for total in (248, 249, 250, 251, 252):
            klen = total - plen
            if klen < 0:
                continue
            for uni in (False, True):
                yield b"k" * klen, uni, prefix
                yield "k" * klen, uni, prefix
            # multi-byte characters: character count < byte count
            for ch in ("é", "€", "\U0001F600"):
                w = len(ch.encode("utf8"))
                nchar, rem = divmod(klen, w)
                if nchar:
                    yield ch * nchar + "k" * rem, True, prefix
                    yield ch * nchar + "k" * rem, False, prefix
                    yield (ch * nchar + "k" * rem).encode("utf8"), False, prefix
    rng = random.Random(seed * 131 + 20)
    for _ in range(30000 if tier == "quick" else 400000):
        n = rng.choice((1, 2, 5, 20, 100, 249, 250, 251, 300))
        mode = rng.randrange(5)
        if mode == 0:
            kb = bytes(rng.choice(b"abcXYZ019_-:.") for _ in range(n))
        elif mode == 1:
            kb = bytes(rng.randrange(256) for _ in range(n))
        elif mode == 2:
            kb = bytearray(rng.choice(b"abcXYZ019_-:.") for _ in range(n))
            kb[rng.randrange(n)] = rng.choice([0, 9, 10, 11, 12, 13, 32, 0x1c, 0x1f, 0x7f, 0x85, 0xa0])
            kb = bytes(kb)
        elif mode == 3:
            s = "".join(rng.choice("abé€　  \t") for _ in range(min(n, 120)))
            yield s, rng.random() < 0.5, rng.choice((b"", b"pp:"))
            continue
        else:
            s = "".join(chr(rng.choice((0x61, 0x1c, 0x1d, 0x1e, 0x1f, 0x85, 0xa0, 0x7a))) for _ in range(min(n, 200)))
            yield s, True, b""
            continue
        yield kb, rng.random() < 0.5, rng.choice((b"", b"pfx:", b"P" * 125))


def nontrivial(key, uni, prefix):
    kb = key.encode("utf8") if isinstance(key, str) else key
    return (not kb.isalnum()) or len(prefix + kb) >= 248 or bool(prefix)


def judge_direct(res, st, base, name, fn, key, uni, prefix):
    """Call one entry point; compare accept/reject with the predicate."""
    from pymemcache.exceptions import MemcacheIllegalInputError
    legal, wire = refs.key_legal(key, uni, prefix)
    st["last"] = None
    st["raise_bad"] = None
    case = (name, key, uni, prefix)
    try:
        r = fn()
        res.count("accepted")
        if not legal:
            res.violation("accepts-illegal:%s:%s" % (name, illegal_class(key, uni, prefix)),
                          "%s accepted illegal key %r (unicode=%s prefix=%r) -> %r" % (name, _short(key), uni, _short(prefix), _short(r)), case)
        elif r != wire:
            res.violation("wrong-wire-key:%s" % name, "%s returned %r, expected %r" % (name, _short(r), _short(wire)), case)
    except Broken:
        res.count("accepted")
        res.violation("accepts-illegal:%s:%s" % (name, illegal_class(key, uni, prefix)),
                      "%s: contract on check_key_helper: %s for key %r (unicode=%s, prefix=%r)"
                      % (name, st["last"], _short(key), uni, _short(prefix)), case)
    except MemcacheIllegalInputError as e:
        res.count("rejected")
        if legal:
            res.violation("rejects-legal:%s" % name, "%s rejected legal key %r (unicode=%s prefix len %d): %s"
                          % (name, _short(key), uni, len(prefix), str(e)[:80]), case)
    except Exception as e:
        res.count("rejected")
        res.violation("wrong-exception:%s:%s" % (name, type(e).__name__),
                      "%s raised %r for key %r" % (name, e, _short(key)), case)
    if st.get("raise_bad") and not legal is False:
        pass
    if st.get("raise_bad") and legal:
        res.violation("rejects-legal:helper", st["raise_bad"] + " key %r" % (_short(key),), case)


def _short(x):
    return x if len(x) <= 40 else x[:18] + (b"..." if isinstance(x, bytes) else "...") + x[-18:]


def illegal_class(key, uni, prefix):
    if isinstance(key, str):
        try:
            kb = key.encode("utf8" if uni else "ascii")
        except UnicodeEncodeError:
            return "non-ascii-str"
    else:
        kb = key
    wire = prefix + kb
    if len(wire) > 250:
        return "too-long"
    bad = sorted({b for b in wire if b in refs.ILLEGAL_KEY_BYTES})
    if bad and all(b in refs.ILLEGAL_KEY_BYTES for b in wire):
        return "whitespace-only"
    if bad:
        return "contains-%02x" % bad[0]
    return "legal"


def suite_with_contracts(res):
    """the repository's own unit suite as one more workload, with the C14/C15/C20 contracts switched on"""
    import json
    import os
    import subprocess
    import tempfile
    fd, path = tempfile.mkstemp(suffix=".json")
    os.close(fd)
    env = dict(os.environ, VERIF_CONTRACT_REPORT=path, PYTHONPATH=os.pathsep.join([common.VERIF, common.REPO]))
    try:
        p = subprocess.run([common.PY, "-m", "pytest", "-p", "vk.pytest_contracts", "-q", "-p", "no:cacheprovider",
                            "-o", "addopts=", "-m", "unit", "pymemcache/test"],
                           cwd=common.REPO, env=env, stdout=subprocess.PIPE, stderr=subprocess.STDOUT, timeout=900)
        rep = json.load(open(path))
    except Exception as e:
        res.count("suite_with_contracts_not_run")
        return
    finally:
        try:
            os.unlink(path)
        except OSError:
            pass
    res.count("suite_tests_run_under_contracts", rep["counters"].get("tests_passed", 0) + rep["counters"].get("tests_failed", 0))
    res.count("suite_contract_evaluations", rep["counters"].get("contract_evaluations", 0))
    for nodeid, why in rep.get("failed_by_contract", []):
        res.violation("contract-fires-in-the-repository-suite", "%s: %s" % (nodeid, why[-300:]), ("suite", nodeid))


ST = {}


def two_threads(res, base, tier):
    """Key validation is a function of the key: two threads of an application (the threads of a PooledClient) validating
    keys at the same time each get the answer for their own key - also when the process has already validated thousands of
    different keys (whatever the function may keep between calls is then full).  Deterministic scheduler, line
    granularity inside check_key_helper, every schedule with <= P preemptions."""
    from vk import sched as S
    from pymemcache.exceptions import MemcacheIllegalInputError
    fn = ST.get("orig") or base.check_key_helper       # the library's own function (the contract wrapper is not scheduled)
    codes = S.codes_of(fn)
    for name, g in vars(base).items():          # helpers a refactoring may have split off
        if callable(g) and getattr(g, "__module__", None) == base.__name__ and hasattr(g, "__code__") and "key" in name.lower():
            codes += [c for c in S.codes_of(g) if c not in codes]
    S.install(codes, "ins")         # instruction granularity: the windows of interest lie inside single lines
    for j in range(2600):
        base.check_key_helper("warm-%d" % j, False, b"")
    counter = [0]
    P = 2 if tier == "quick" else 3
    for ka, kb_ in (("fresh-a-%d", "fresh-b-%d"), ("fresh-c-%d", "bad key %d"), ("caf\u00e9-%d", "fresh-d-%d")):
        def make(sch, ka=ka, kb_=kb_):
            counter[0] += 1
            keys = {0: [ka % counter[0], "again-%d" % counter[0]], 1: [kb_ % counter[0], "more-%d" % counter[0]]}
            outs = {0: [], 1: []}

            def prog(t):
                def run():
                    for k in keys[t]:
                        try:
                            outs[t].append((k, "ret", base.check_key_helper(k, False, b"p:")))
                        except S.SchedAbort:
                            raise
                        except BaseException as e:
                            outs[t].append((k, "exc", e))
                return run

            def judge(ok, sch_):
                for t in (0, 1):
                    for k, kind, r in outs[t]:
                        res.count("keys_validated_under_concurrency")
                        legal, wire = refs.key_legal(k, False, b"p:")
                        if legal and not (kind == "ret" and r == wire):
                            return ("two-threads:rejects-legal:check_key_helper", "thread %d: check_key_helper(%r) -> %s %r, expected %r" % (t, k, kind, r, wire))
                        if not legal and not (kind == "exc" and type(r) is MemcacheIllegalInputError):
                            return ("two-threads:accepts-illegal-or-wrong-exception:check_key_helper",
                                    "thread %d: check_key_helper(%r) -> %s %r for an illegal key" % (t, k, kind, r))
                return None
            return [prog(0), prog(1)], judge
        ex, exhaustive, bad = S.explore_threads(make, 2, P, 700 if tier == "quick" else 12000, on_run=lambda sch: res.count("two_thread_schedules"))
        if bad:
            res.violation(bad[0], bad[1] + " ; schedule %r" % (sorted(bad[2].items(), key=repr),), ("two-threads", ka))
        res.case(("two-threads", ka))


def shard(tier, seed, idx, n):
    res = common.Result()
    if idx == 0:
        suite_with_contracts(res)
    st = install(res)
    import pymemcache.client.base as base
    import pymemcache.client.hash as hashmod
    from vk.fakenet import FakeNet
    net = FakeNet()
    net.trace_enabled = False
    srv = net.add_server("mc1", 11211)
    clients = {}

    def get_clients(uni, prefix):
        k = (uni, prefix)
        if k not in clients:
            if len(clients) > 64:
                clients.clear()
            kw = dict(socket_module=net, allow_unicode_keys=uni, key_prefix=prefix)
            clients[k] = (base.Client(("mc1", 11211), **kw), base.PooledClient(("mc1", 11211), **kw),
                          hashmod.HashClient([("mc1", 11211)], **kw))
        return clients[k]

    def with_prefixed(gen):
        # also keys that themselves begin with the configured prefix (a prefix must be applied, never 'recognised')
        for j, (key, uni, prefix) in enumerate(gen):
            yield key, uni, prefix
            if j % 5 == 0 and type(key) in (str, bytes) and key:
                # the same key as an instance of a str / bytes subclass whose str() and repr() say something else (a
                # str-mixin Enum member, a tagged string): a key is its characters / bytes, not what it prints as
                yield (PrintsDifferentlyStr(key) if type(key) is str else PrintsDifferentlyBytes(key)), uni, prefix
            if prefix and j % 3 == 0:
                try:
                    yield (prefix + key if isinstance(key, bytes) else prefix.decode("ascii") + key), uni, prefix
                except UnicodeDecodeError:
                    pass

    ign_clients = {}
    enc_clients = {}

    def enc_client(uni, prefix, encoding="utf8"):
        k = (uni, prefix, encoding)
        if k not in enc_clients:
            if len(enc_clients) > 64:
                enc_clients.clear()
            enc_clients[k] = base.Client(("mc1", 11211), socket_module=net, allow_unicode_keys=uni, key_prefix=prefix,
                                         encoding=encoding)
        return enc_clients[k]

    down_clients = {}

    def down_client(uni, prefix):
        """a HashClient with no server in rotation"""
        k = (uni, prefix)
        if k not in down_clients:
            if len(down_clients) > 64:
                down_clients.clear()
            # no server in rotation at all (the state reached once every node has been evicted)
            hc = hashmod.HashClient([], socket_module=net, allow_unicode_keys=uni, key_prefix=prefix)
            down_clients[k] = hc
        return down_clients[k]

    dead_srv = net.add_server("mc-unreachable", 11211)
    dead_srv.health = "refused"
    unreach = {}

    def unreach_clients(uni, prefix):
        """clients whose server refuses connections: an illegal key is still an input error, not a connection error"""
        k = (uni, prefix)
        if k not in unreach:
            if len(unreach) > 64:
                unreach.clear()
            kw = dict(socket_module=net, allow_unicode_keys=uni, key_prefix=prefix)
            unreach[k] = (base.Client(("mc-unreachable", 11211), **kw), base.PooledClient(("mc-unreachable", 11211), **kw),
                          hashmod.HashClient([("mc-unreachable", 11211)], retry_attempts=100, retry_timeout=0, **kw))
        return unreach[k]

    UNREACH_OPS = [
        ("get", lambda c, k: c.get(k)), ("set", lambda c, k: c.set(k, b"v", noreply=False)), ("delete", lambda c, k: c.delete(k)),
        ("incr", lambda c, k: c.incr(k, 1)), ("touch", lambda c, k: c.touch(k, 5)), ("get_many", lambda c, k: c.get_many(["o", k])),
        ("set_many", lambda c, k: c.set_many({"o": b"v", k: b"v"}, noreply=False)), ("gats", lambda c, k: c.gats(k, 5)),
        ("cas", lambda c, k: c.cas(k, b"v", b"1")), ("append", lambda c, k: c.append(k, b"v")), ("add", lambda c, k: c.add(k, b"v")),
        ("delete_many", lambda c, k: c.delete_many(["o", k])), ("decr", lambda c, k: c.decr(k, 1)), ("gets", lambda c, k: c.gets(k)),
        ("replace", lambda c, k: c.replace(k, b"v")), ("prepend", lambda c, k: c.prepend(k, b"v")), ("gat", lambda c, k: c.gat(k, 5)),
        # the mapping protocol where a class offers it (else the named method it stands for)
        ("getitem", lambda c, k: c[k] if hasattr(type(c), "__getitem__") else c.get(k)),
        ("setitem", lambda c, k: c.__setitem__(k, b"v") if hasattr(type(c), "__setitem__") else c.set(k, b"v", noreply=False)),
        ("delitem", lambda c, k: c.__delitem__(k) if hasattr(type(c), "__delitem__") else c.delete(k, noreply=False)),
    ]

    def ign_client(uni, prefix):
        k = (uni, prefix)
        if k not in ign_clients:
            if len(ign_clients) > 64:
                ign_clients.clear()
            ign_clients[k] = base.Client(("mc1", 11211), socket_module=net, allow_unicode_keys=uni, key_prefix=prefix,
                                         ignore_exc=True)
        return ign_clients[k]

    for i, (key, uni, prefix) in enumerate(with_prefixed(gen_keys(tier, seed))):
        if i % n != idx:
            continue
        kb = key.encode("utf8", "surrogatepass") if isinstance(key, str) else key
        if prefix + kb == b"":
            continue
        c, p, h = get_clients(uni, prefix)
        helper = base.check_key_helper
        judge_direct(res, st, base, "check_key_helper", lambda: helper(key, uni, prefix), key, uni, prefix)
        judge_direct(res, st, base, "Client.check_key", lambda: c.check_key(key, prefix), key, uni, prefix)
        judge_direct(res, st, base, "PooledClient.check_key", lambda: p.check_key(key), key, uni, prefix)
        if i % 4 == 0:
            import copy as _copy
            cc = _copy.copy(c)          # a (shallow) copy of a client is configured like the client
            judge_direct(res, st, base, "copy.copy(Client).check_key", lambda: cc.check_key(key, prefix), key, uni, prefix)
        # HashClient operation: accepted <=> a get for exactly prefix+key reaches the wire
        legal, wire = refs.key_legal(key, uni, prefix)
        if i % 3 == 0 or not legal or len(kb) > 200:
            n0 = len(srv.cmdlog)
            m0 = len(srv.malformed)

            def hget():
                h.get(key)
                cmds = srv.cmdlog[n0:]
                if srv.malformed[m0:]:
                    return b"<malformed: %s>" % srv.malformed[-1][0][:30]
                if len(cmds) != 1 or cmds[0].verb != b"get" or len(cmds[0].keys) != 1:
                    return b"<no single get on the wire>"
                res.count("wire_keys_checked")
                return cmds[0].keys[0]
            judge_direct(res, st, base, "HashClient.get", hget, key, uni, prefix)
            # Client with ignore_exc: a rejected key is still an input error, never a silent miss
            ic = ign_client(uni, prefix)
            n1, m1 = len(srv.cmdlog), len(srv.malformed)

            def iget():
                ic.get(key)
                cmds = srv.cmdlog[n1:]
                if srv.malformed[m1:]:
                    return b"<malformed>"
                if len(cmds) != 1 or cmds[0].verb != b"get" or len(cmds[0].keys) != 1:
                    return b"<nothing sent: the key was silently dropped>"
                res.count("wire_keys_checked")
                return cmds[0].keys[0]
            judge_direct(res, st, base, "Client(ignore_exc).get", iget, key, uni, prefix)
            ec = enc_client(uni, prefix)
            judge_direct(res, st, base, "Client(encoding=utf8).check_key", lambda: ec.check_key(key, prefix), key, uni, prefix)
            # the value encoding is not the key encoding: keys are ASCII, or UTF-8 with unicode keys, whatever `encoding` says
            for enc_ in ("latin-1", "cp1252", "utf-16"):
                lc = enc_client(uni, prefix, enc_)
                judge_direct(res, st, base, "Client(encoding=%s).check_key" % enc_, lambda: lc.check_key(key, prefix), key, uni, prefix)
                if legal and isinstance(key, str) and not key.isascii():
                    n2, m2 = len(srv.cmdlog), len(srv.malformed)

                    def lget():
                        lc.get(key)
                        cmds = srv.cmdlog[n2:]
                        if srv.malformed[m2:] or len(cmds) != 1 or len(cmds[0].keys) != 1:
                            return b"<no single well-formed get on the wire>"
                        res.count("wire_keys_checked")
                        return cmds[0].keys[0]
                    judge_direct(res, st, base, "Client(encoding=%s).get" % enc_, lget, key, uni, prefix)
            if i % 2 == 0 or not legal:
                dc = down_client(uni, prefix)

                def dget():
                    from pymemcache.exceptions import MemcacheError, MemcacheIllegalInputError
                    try:
                        dc.get(key)
                    except MemcacheIllegalInputError:
                        raise
                    except MemcacheError:
                        # not rejected as an illegal key: 'all servers down' is the expected outcome for a legal one
                        return wire if wire is not None else b"<all-servers-down error instead of an input error>"
                    return b"<no error although no server is in rotation>"
                judge_direct(res, st, base, "HashClient(no server left).get", dget, key, uni, prefix)
            if not legal or i % 5 == 0:
                for cname, cl in zip(("Client", "PooledClient", "HashClient"), unreach_clients(uni, prefix)):
                    oname, ofn = UNREACH_OPS[(i // n + len(cname)) % len(UNREACH_OPS)]

                    if cname == "HashClient" and oname in ("set_many", "delete_many", "get_many"):
                        # a HashClient works through such a batch key by key (each key has its own server): the unreachable
                        # server's error for an earlier legal key legitimately comes first, so the judged key stands alone
                        ofn = {"set_many": lambda c, k: c.set_many({k: b"v"}, noreply=False),
                               "delete_many": lambda c, k: c.delete_many([k]), "get_many": lambda c, k: c.get_many([k])}[oname]

                    def uop(cl=cl, ofn=ofn, cname=cname):
                        from pymemcache.exceptions import MemcacheError, MemcacheIllegalInputError
                        try:
                            ofn(cl, key)
                        except MemcacheIllegalInputError:
                            raise
                        except MemcacheError:
                            if cname != "HashClient":
                                raise
                            # the refusing server has meanwhile been taken out of rotation: 'all servers down'
                            res.count("unreachable_server_connect_errors")
                            return wire if wire is not None else b"<all-servers-down error instead of an input error>"
                        except OSError:
                            res.count("unreachable_server_connect_errors")
                            return wire if wire is not None else b"<connection error instead of an input error>"
                        return b"<no error although the server refuses connections>"
                    judge_direct(res, st, base, "%s(server unreachable).%s" % (cname, oname), uop, key, uni, prefix)
            if isinstance(key, (str, bytes)) and (i % 4 == 0 or not legal) and len(prefix) < 250:
                # the judged key as the SERVER key of a (server_key, key) pair: validated like any key, on every path
                for pname, pfn in (("get", lambda: h.get((key, "o"))), ("get_many", lambda: h.get_many([(key, "o")])),
                                   ("set_many", lambda: h.set_many({(key, "o"): b"v"}, noreply=False)),
                                   ("set", lambda: h.set((key, "o"), b"v", noreply=False))):
                    def pair_op(pfn=pfn):
                        pfn()
                        return wire          # accepted: what reaches the wire is the inner key, not judged here
                    judge_direct(res, st, base, "HashClient.%s((server_key, 'o'))" % pname, pair_op, key, uni, prefix)
                res.count("server_key_pairs_judged")
            if srv.malformed[m1:]:
                ign_clients.pop((uni, prefix), None)
            if srv.malformed[m0:]:
                # desynchronised connection: start afresh
                clients.pop((uni, prefix), None)
        res.case((key, uni, prefix) if nontrivial(key, uni, prefix) else None,
                 {"key": repr(_short(key)), "unicode": uni, "prefix_len": len(prefix), "legal": legal}
                 if res.evaluations % 4999 == 0 else None)
    if idx == n - 1:
        ST.update(st)
        two_threads(res, base, tier)
    res.extra["exhaustive"] = True
    res.extra["exhaustive_part"] = "keys of length 1..3 over the 11 byte classes; every byte value at every position of a 10-byte key"
    return res


def replay(case):
    res = common.Result()
    st = install(res)
    import pymemcache.client.base as base
    if case and case[0] == "two-threads":
        ST.update(st)
        two_threads(res, base, "quick")
        res.case(case)
        for cn in REQUIRED_COUNTERS:
            res.count(cn)
        return res
    name, key, uni, prefix = case
    helper = base.check_key_helper
    c = base.Client(("mc1", 11211), allow_unicode_keys=uni, key_prefix=prefix)
    p = base.PooledClient(("mc1", 11211), allow_unicode_keys=uni, key_prefix=prefix)
    judge_direct(res, st, base, "check_key_helper", lambda: helper(key, uni, prefix), key, uni, prefix)
    judge_direct(res, st, base, "Client.check_key", lambda: c.check_key(key, prefix), key, uni, prefix)
    judge_direct(res, st, base, "PooledClient.check_key", lambda: p.check_key(key), key, uni, prefix)
    res.case(case)
    for cn in REQUIRED_COUNTERS:
        res.count(cn)
    return res
