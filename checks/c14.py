"""C14 - murmur3_32 equals MurmurHash3_x86_32.

Monitor: an icontract postcondition wrapped (from the harness) around the real
pymemcache.client.murmur3.murmur3_32 and re-bound in rendezvous.py, comparing every
return value with an independent bytes-oriented reference; a second oracle (the
original C algorithm under ASan+UBSan) and the published vectors must agree with
the first before the repository function is judged."""
import itertools
import random

from vk import common, refs

PROPERTY = "C14"
LEVEL = "exploration"
RULE = ("exhaustive strings over reduced byte alphabets (len<=5 over {00,01,7f,80,ff}; len<=3 over 17 symbols) "
        "x 5 seeds; every length 0..64 (thorough 0..300) x random content x fixed+random seeds; all-0xff strings; "
        "non-Latin-1 strings (short and up to 400 characters, lone surrogates included) for range/determinism/release stability. Non-trivial = length>=1; distinct by (string, seed).")
ASSUMPTIONS = [
    "the independent Python reference, the C transcription (ASan+UBSan) and 17 published vectors agree with one another (checked each run)",
    "strings of code points 0..255 are identified with bytes via latin-1",
    "a seed outside 0..2^32-1 is outside the statement's 'every 32-bit seed'; release stability (last sentence) is read as: such a seed keeps meaning its low 32 bits, which is what the pinned release computes",
    "for other strings the statement only demands a deterministic 32-bit value; additionally (release stability, last sentence of the statement) the value must stay what the pinned release computes, i.e. the reference applied to code points mod 256",
]
MIN_NONTRIVIAL = {"quick": 50000, "thorough": 1000000}
REQUIRED_COUNTERS = ["contract_evaluations", "vectors_checked"]
SHARDS = {"quick": 8, "thorough": 16}

SEEDS = [0, 1, 0x7FFFFFFF, 0x80000000, 0xFFFFFFFF]


class Broken(Exception):
    pass


def _install_contract(res):
    import icontract
    from pymemcache.client import murmur3, rendezvous
    orig = murmur3.murmur3_32
    state = {"last": None}

    def matches_reference(data, seed, result):
        res.count("contract_evaluations")
        if not (isinstance(result, int) and not isinstance(result, bool) and 0 <= result <= 0xFFFFFFFF):
            state["last"] = "range: %r" % (result,)
            return False
        try:
            b = data.encode("latin-1")
        except UnicodeEncodeError:
            return True            # other strings: range + determinism only (checked by caller)
        exp = refs.murmur3_bytes(b, seed & 0xFFFFFFFF)        # (seeds outside 32 bits: see the release-stability section)
        if result != exp:
            state["last"] = "got %#x expected %#x" % (result, exp)
            return False
        return True

    # icontract resolves defaults: give 'seed' explicitly through a thin named wrapper
    def murmur3_32(data, seed=0):
        return orig(data, seed)

    wrapped = icontract.ensure(matches_reference, error=Broken)(murmur3_32)
    murmur3.murmur3_32 = wrapped
    rendezvous.murmur3_32 = wrapped
    # the default argument of RendezvousHash.__init__ was bound at def time
    d = rendezvous.RendezvousHash.__init__.__defaults__
    rendezvous.RendezvousHash.__init__.__defaults__ = tuple(wrapped if x is orig else x for x in d)
    return wrapped, orig, state


def _cases(tier, seed):
    """yield (string, seed_value)"""
    a5 = [0x00, 0x01, 0x7F, 0x80, 0xFF]
    for n in range(0, 6):
        for t in itertools.product(a5, repeat=n):
            s = "".join(map(chr, t))
            for sd in SEEDS:
                yield s, sd
    a17 = [0x00, 0x01, 0x0A, 0x0D, 0x20, 0x2D, 0x30, 0x41, 0x61, 0x7E, 0x7F, 0x80, 0x81, 0xA5, 0xC3, 0xFE, 0xFF]
    for n in range(1, 4):
        for t in itertools.product(a17, repeat=n):
            s = "".join(map(chr, t))
            for sd in (0, 0xFFFFFFFF):
                yield s, sd
    rng = random.Random(seed * 7919 + 14)
    maxlen = 64 if tier == "quick" else 300
    reps = 1000 if tier == "quick" else 6000
    rseeds = [rng.getrandbits(32) for _ in range(5)]
    for n in range(0, maxlen + 1):
        for r in range(reps):
            mode = r % 4
            if mode == 0:
                s = "".join(chr(rng.getrandbits(8)) for _ in range(n))
            elif mode == 1:
                s = "".join(chr(rng.choice((0x80, 0xFF, 0xFE, 0x7F, 0x00))) for _ in range(n))
            elif mode == 2:
                s = "".join(chr(rng.randrange(0x20, 0x7F)) for _ in range(n))
            else:
                s = "".join(chr(rng.getrandbits(8) | 0x80) for _ in range(n))
            yield s, (SEEDS + rseeds)[r % 10]
        yield "\xff" * n, 0
        yield "\xff" * n, 0xFFFFFFFF
    # every way of splitting one text into (data, decimal seed): pairs that agree when glued together but are different
    # inputs (memoisation keyed by anything coarser than the pair), in both orders
    for text in ("ab10", "k2147483648", "10", "1", "x4294967295", "key:2147483648", "n42", "7", "a0", "00", "mc1:11211-k1"):
        pairs = []
        for i in range(len(text) + 1):
            tail = text[i:]
            if tail == "":
                pairs.append((text, 0))
            elif tail.isdigit() and (tail == "0" or not tail.startswith("0")) and int(tail) <= 0xFFFFFFFF:
                pairs.append((text[:i], int(tail)))
        for p_ in pairs + pairs[::-1]:
            yield p_ + ("every-shard",)        # the pairs of one text must meet in one process
    # typical rendezvous inputs
    for i in range(500 if tier == "quick" else 5000):
        yield "127.0.0.%d:11211-key%d" % (i % 7, i), 0


def prepare():
    refs.CRef()        # build the sanitizer-instrumented C reference once, before the shards start


def shard(tier, seed, idx, n):
    res = common.Result()
    # oracles must agree before anything is judged
    cref = refs.CRef()
    res.extra["c_reference_available"] = bool(cref.available)
    for d, s, e in refs.VECTORS:
        res.count("vectors_checked")
        if refs.murmur3_bytes(d, s) != e:
            res.inconclusive.append("python reference disagrees with published vector %r" % ((d, s),))
            return res
    if cref.available:
        got = cref.batch([(d, s) for d, s, e in refs.VECTORS])
        if got != [e for _, _, e in refs.VECTORS]:
            res.inconclusive.append("C reference disagrees with published vectors")
            return res
    fn, orig, state = _install_contract(res)
    from pymemcache.client import rendezvous
    # vectors against the repository function
    if idx == 0:
        for d, s, e in refs.VECTORS:
            case = (d.decode("latin-1"), s)
            try:
                fn(case[0], s)
            except Broken:
                res.violation("vector-mismatch", "published vector: %s" % state["last"], case)
            res.case(("vec", case) if d else None, None)
    batch = []
    for i, case_ in enumerate(_cases(tier, seed)):
        s, sd = case_[0], case_[1]
        if len(case_) == 2 and i % n != idx:
            continue
        try:
            r1 = fn(s, sd)
        except Broken:
            res.violation("reference-mismatch(len%%4=%d)" % (len(s) % 4),
                          "murmur3_32(%r, %#x): %s" % (s[:40], sd, state["last"]), (s, sd))
            r1 = None
        except Exception as e:  # the function raised
            res.violation("raises-" + type(e).__name__, "murmur3_32(%r,%#x) raised %r" % (s[:40], sd, e), (s, sd))
            r1 = None
        if i % 16 == 0 and r1 is not None:
            r2 = orig(s, sd)          # determinism
            res.count("determinism_checks")
            if r2 != r1:
                res.violation("nondeterministic", "two calls differ on %r" % (s[:40],), (s, sd))
        if cref.available and i % 4 == 0 and r1 is not None:
            batch.append((s.encode("latin-1"), sd, r1))
        res.case((s, sd) if s else None, (s[:24], sd, r1) if i % 9973 == 0 else None)
    if cref.available and batch:
        got = cref.batch([(b, sd) for b, sd, _ in batch])
        for (b, sd, r1), g in zip(batch, got):
            res.count("c_reference_comparisons")
            if g != r1:
                res.violation("c-reference-mismatch", "C ref %#x vs %#x" % (g, r1), (b.decode("latin-1"), sd))
    # non-Latin-1: range + determinism
    rng = random.Random(seed + 99 + idx)
    for it in range(400 if tier == "quick" else 4000):
        alpha = (0x100, 0x263A, 0x1F600, 0x41, 0xFF, 0xFFFF)
        if it % 4 == 1:
            alpha = alpha + (0xD800, 0xDBFF, 0xDC00, 0xDFFF)        # lone surrogates (os.fsdecode, json.loads("\\ud83d"))
        if it % 4 == 2:
            # long strings (every block count up to ~100), mostly ASCII with a few characters above U+00FF
            n_ = rng.randrange(20, 400)
            s = "".join(chr(rng.randrange(0x21, 0x7F)) for _ in range(n_))
            for _k in range(rng.randrange(1, 4)):
                p_ = rng.randrange(n_)
                s = s[:p_] + chr(rng.choice(alpha[:3] + (0xD83D,))) + s[p_ + 1:]
        elif it % 4 == 3:
            s = "".join(chr(rng.choice(alpha)) for _ in range(rng.randrange(100, 300)))
        else:
            s = "".join(chr(rng.choice(alpha)) for _ in range(rng.randrange(1, 20)))
        sd = rng.choice(SEEDS)
        try:
            a = fn(s, sd)
            b = fn(s, sd)
        except Broken:
            res.violation("range-nonlatin1", state["last"], (s, sd))
            continue
        except Exception as e:
            res.violation("raises-nonlatin1-" + type(e).__name__, repr(e), (s, sd))
            continue
        res.count("nonlatin1_checks")
        if a != b:
            res.violation("nondeterministic-nonlatin1", "differs", (s, sd))
        if a != refs.murmur3_mod256(s, sd):
            res.violation("nonlatin1-value-changed-between-releases",
                          "murmur3_32(%r, %#x) = %#x; the pinned release computes %#x (placement of such keys would move)"
                          % (s, sd, a, refs.murmur3_mod256(s, sd)), (s, sd))
        res.maximum("max_nonlatin1_length", len(s))
        res.case(("nl", s, sd))
    # seeds outside 0..2^32-1 (RendezvousHash(seed=-1), a 64-bit seed from a config file): the statement speaks of 32-bit
    # seeds only; the pinned release reads such a seed as its low 32 bits, and placement 'does not change between releases'
    wide = [-1, -2, -(1 << 31), -(1 << 32), 1 << 32, (1 << 32) + 5, (1 << 40) + 7, (1 << 64) - 1, -(1 << 63), -12345678901]
    for it in range(idx, 1200 if tier == "quick" else 12000, n):
        rng = random.Random(seed * 7919 + it)
        s = "".join(chr(rng.randrange(256)) for _ in range(rng.choice((0, 1, 2, 3, 4, 5, 7, 8, 13, 16, 31, 64))))
        sd = wide[it % len(wide)] if it % 3 else rng.randrange(-(1 << 70), 1 << 70)
        try:
            a = fn(s, sd)
            b = fn(s, sd)
        except Broken:
            res.violation("wide-seed-value-changed-between-releases", "murmur3_32(%r, %d): %s; the pinned release reads the seed as %#x"
                          % (s, sd, state["last"], sd & 0xFFFFFFFF), (s, sd))
            continue
        except Exception as e:
            res.violation("raises-wide-seed-" + type(e).__name__, "murmur3_32(%r, %d) raised %r" % (s, sd, e), (s, sd))
            continue
        res.count("wide_seed_checks")
        if a != b:
            res.violation("nondeterministic-wide-seed", "differs", (s, sd))
        res.case(("wide-seed", s, sd))
    # the seed defaults to 0 (murmur3_32(data) and RendezvousHash() are what other implementations are compared with)
    for s_ in ("", "a", "abcd", "node-1:11211-key", "\xff\x00\x80z"):
        res.count("vectors_checked")
        try:
            if orig(s_) != refs.murmur3_bytes(s_.encode("latin-1"), 0):
                res.violation("default-seed-is-not-0", "murmur3_32(%r) = %#x, MurmurHash3_x86_32 with seed 0 gives %#x"
                              % (s_, orig(s_), refs.murmur3_bytes(s_.encode("latin-1"), 0)), (s_, 0))
        except TypeError as e:
            res.violation("default-seed-is-not-0", "murmur3_32(%r) without a seed raised %r" % (s_, e), (s_, 0))
    hd = rendezvous.RendezvousHash(nodes=["a:1", "b:2", "c:3"])
    for j in range(60):
        if hd.get_node("key-%d" % j) != refs.rendezvous_ref(["a:1", "b:2", "c:3"], "key-%d" % j):
            res.violation("default-seed-is-not-0", "RendezvousHash() without a seed places key-%d on %r; the rule with seed 0 says %r"
                          % (j, hd.get_node("key-%d" % j), refs.rendezvous_ref(["a:1", "b:2", "c:3"], "key-%d" % j)), ("key-%d" % j, 0))
            break
    for sd in wide:
        h1 = rendezvous.RendezvousHash(nodes=["a:1", "b:2", "c:3", "d:4"], seed=sd)
        h2 = rendezvous.RendezvousHash(nodes=["a:1", "b:2", "c:3", "d:4"], seed=sd & 0xFFFFFFFF)
        for j in range(40):
            if h1.get_node("key-%d" % j) != h2.get_node("key-%d" % j):
                res.violation("wide-seed-placement-changed-between-releases", "RendezvousHash(seed=%d) places key-%d on %r; the pinned "
                              "release places it like seed=%#x: %r" % (sd, j, h1.get_node("key-%d" % j), sd & 0xFFFFFFFF, h2.get_node("key-%d" % j)),
                              ("key-%d" % j, sd))
                break
    # the name bound in rendezvous.py is really monitored
    before = res.counters["contract_evaluations"]
    rendezvous.RendezvousHash(nodes=["a:1", "b:2"]).get_node("k")
    res.count("rendezvous_binding_evaluations", res.counters["contract_evaluations"] - before)
    if res.counters["rendezvous_binding_evaluations"] <= 0:
        res.inconclusive.append("contract not reached through rendezvous.py binding")
    res.extra["exhaustive"] = True
    res.extra["exhaustive_part"] = "all strings len<=5 over {00,01,7f,80,ff} x 5 seeds; len<=3 over 17 symbols x 2 seeds"
    return res


def replay(case):
    res = common.Result()
    fn, orig, state = _install_contract(res)
    s, sd = case
    try:
        r = fn(s, sd)
        print("murmur3_32(%r, %#x) = %#x ; reference (code points mod 256) = %#x" % (s[:60], sd, r, refs.murmur3_mod256(s, sd)))
        if r != refs.murmur3_mod256(s, sd):
            res.violation("nonlatin1-value-changed-between-releases", "differs from the pinned release's value", case)
    except Broken:
        res.violation("reference-mismatch(len%%4=%d)" % (len(s) % 4), state["last"], case)
    except Exception as e:
        res.violation("raises-" + type(e).__name__, "murmur3_32(%r, %#x) raised %r" % (s[:60], sd, e), case)
    res.case((s, sd))
    res.count("vectors_checked")
    return res
