"""Intended-command builder (C02): from a public call's arguments alone, compute whether the
input is legal per the statement and, if so, the exact commands a strict parser must read.
Independent of pymemcache: it never calls into the library."""
from vk import refs

U64 = (1 << 64) - 1
U32 = (1 << 32) - 1
I64 = (-(1 << 63), (1 << 63) - 1)

STORE_OPS = ("set", "add", "replace", "append", "prepend", "cas")
DEFAULT_NOREPLY_FOLLOWS_CONFIG = ("set", "add", "replace", "append", "prepend", "set_many", "delete",
                                  "delete_many", "touch", "flush_all")


def is_int(x):
    return isinstance(x, int) and not isinstance(x, bool)


def _noreply(op, kw, cfg):
    nr = kw.get("noreply")
    if nr is None:
        if op in DEFAULT_NOREPLY_FOLLOWS_CONFIG:
            return bool(cfg.get("default_noreply", True))
        return False
    return bool(nr)


def _data(value, cfg):
    """-> (ok, bytes) what the data block must be without a serde (or with the str-serde)."""
    enc = cfg.get("encoding", "ascii")
    if cfg.get("serde") == "strserde" and isinstance(value, bytes):
        value = value.decode("latin-1")        # the test serde returns text
    if isinstance(value, bytes):
        return True, value
    try:
        return True, str(value).encode(enc)
    except UnicodeEncodeError:
        return False, None


def _key(key, cfg):
    prefix = cfg.get("key_prefix", b"")
    if isinstance(prefix, str):
        prefix = prefix.encode("ascii")        # Client documents: a str prefix is its ASCII encoding
    legal, wire = refs.key_legal(key, cfg.get("allow_unicode_keys", False), prefix)
    if legal and wire == b"":
        return False, None
    return legal, wire


def _cas(cas):
    if is_int(cas):
        return (0 <= cas <= U64), (b"%d" % cas if cas >= 0 else None)
    if isinstance(cas, str):
        try:
            b = cas.encode("ascii")
        except UnicodeEncodeError:
            return False, None
        return (b.isdigit() and int(b) <= U64), b
    if isinstance(cas, bytes):
        return (cas.isdigit() and int(cas) <= U64), cas
    return False, None


def intended(op, args, kw, cfg):
    """-> (legal, [sig...])  sig = (verb, keys, flags, exptime, nbytes, data, cas, delta, noreply, args)
    legal False means: the only acceptable outcome is an input error with nothing sent."""
    a = list(args)
    kw = dict(kw)

    def arg(i, name, default=None):
        if len(a) > i:
            return a[i]
        return kw.get(name, default)

    def sig(verb, keys=(), flags=None, exptime=None, nbytes=None, data=None, cas=None, delta=None,
            noreply=False, xargs=()):
        return (verb, tuple(keys), flags, exptime, nbytes, data, cas, delta, noreply, tuple(xargs))

    nr = _noreply(op, kw, cfg)          # checks pass noreply by keyword
    if op == "__setitem__":
        op, a, kw, nr = "set", [a[0], a[1]], {}, True
    elif op == "__delitem__":
        op, a, kw, nr = "delete", [a[0]], {}, True
    elif op == "__getitem__":
        op, a, kw = "get", [a[0]], {}

    if op in STORE_OPS or op == "set_many":
        if op == "set_many":
            items = list(arg(0, "values").items())
            expire, flags = arg(1, "expire", 0), arg(3, "flags")
            cas = None
        elif op == "cas":
            items = [(a[0], a[1])]
            cas = a[2] if len(a) > 2 else kw.get("cas")
            expire, flags = arg(3, "expire", 0), arg(5, "flags")
        else:
            items = [(a[0], a[1])]
            cas = None
            expire, flags = arg(2, "expire", 0), arg(4, "flags")
        ok = is_int(expire) and I64[0] <= expire <= I64[1]
        casb = None
        if op == "cas":
            cok, casb = _cas(cas)
            ok = ok and cok
        if flags is not None:
            ok = ok and is_int(flags) and 0 <= flags <= U32
        cmds = []
        for k, v in items:
            kok, wire = _key(k, cfg)
            dok, data = _data(v, cfg)
            ok = ok and kok and dok
            if ok:
                dflt = 0
                if cfg.get("serde") == "strserde":
                    dflt = 3 if isinstance(v, bytes) else 4
                cmds.append(sig(b"set" if op == "set_many" else op.encode(), [wire],
                                flags if flags is not None else dflt, expire, len(data), data,
                                int(casb) if casb is not None else None, None, nr))
        return ok, cmds if ok else []
    if op in ("get", "gets"):
        kok, wire = _key(a[0], cfg)
        return kok, [sig(op.encode(), [wire])] if kok else []
    if op in ("gat", "gats"):
        kok, wire = _key(a[0], cfg)
        expire = arg(1, "expire", 0)
        ok = kok and is_int(expire) and I64[0] <= expire <= I64[1]
        return ok, [sig(op.encode(), [wire], exptime=expire)] if ok else []
    if op in ("get_many", "gets_many"):
        keys = list(a[0])
        wires = []
        ok = True
        for k in keys:
            kok, wire = _key(k, cfg)
            ok = ok and kok
            wires.append(wire)
        if not keys:
            return True, []
        return ok, [sig(b"get" if op == "get_many" else b"gets", wires)] if ok else []
    if op == "delete":
        kok, wire = _key(a[0], cfg)
        return kok, [sig(b"delete", [wire], noreply=nr)] if kok else []
    if op == "delete_many":
        keys = list(a[0])
        ok = True
        cmds = []
        for k in keys:
            kok, wire = _key(k, cfg)
            ok = ok and kok
            cmds.append(sig(b"delete", [wire], noreply=nr))
        return ok, cmds if ok else []
    if op in ("incr", "decr"):
        kok, wire = _key(a[0], cfg)
        delta = arg(1, "value")
        ok = kok and is_int(delta) and 0 <= delta <= U64
        return ok, [sig(op.encode(), [wire], delta=delta, noreply=nr)] if ok else []
    if op == "touch":
        kok, wire = _key(a[0], cfg)
        expire = arg(1, "expire", 0)
        ok = kok and is_int(expire) and I64[0] <= expire <= I64[1]
        return ok, [sig(b"touch", [wire], exptime=expire, noreply=nr)] if ok else []
    if op == "flush_all":
        delay = arg(0, "delay", 0)
        ok = is_int(delay) and 0 <= delay <= I64[1]
        return ok, [sig(b"flush_all", exptime=delay, noreply=nr, xargs=[b"%d" % delay])] if ok else []
    if op == "version":
        return True, [sig(b"version")]
    if op == "quit":
        return True, [sig(b"quit", noreply=True)]
    if op == "shutdown":
        graceful = arg(0, "graceful", False)
        return True, [sig(b"shutdown", xargs=[b"graceful"] if graceful else [])]
    if op == "cache_memlimit":
        m = arg(0, "memlimit")
        ok = is_int(m) and m >= 0
        return ok, [sig(b"cache_memlimit", xargs=[b"%d" % m])] if ok else []
    raise ValueError(op)
