"""pytest plugin: run the repository's own unit suite with the runtime contracts of C14/C15/C20 switched on.

    PYTHONPATH=/verif:/repo /venv/bin/python -m pytest -p vk.pytest_contracts -q -p no:cacheprovider /repo/pymemcache/test

A contract that fires inside the suite is either too strict or a defect the suite does not assert; the counts and any
violation are written to $VERIF_CONTRACT_REPORT (JSON).  Test outcomes themselves are not changed: the contracts only record."""
import json
import os

from vk import common

_res = common.Result()
_state = {}


def pytest_configure(config):
    common.setup_paths()
    common.ensure_deps()
    from checks import c14, c15, c20
    try:
        _state["c20"] = c20.install(_res)
    except Exception as e:  # pragma: no cover
        _res.inconclusive.append("c20 contract not installed: %r" % (e,))
    try:
        fn, orig, st = c14._install_contract(_res)
        _state["c14"] = st
    except Exception as e:  # pragma: no cover
        _res.inconclusive.append("c14 contract not installed: %r" % (e,))
    try:
        _state["c15"] = c15.install(_res)
    except Exception as e:  # pragma: no cover
        _res.inconclusive.append("c15 contract not installed: %r" % (e,))


def pytest_runtest_logreport(report):
    if report.when == "call":
        _res.count("tests_" + report.outcome)
        if report.failed and ("Broken" in str(report.longrepr) or "icontract" in str(report.longrepr)):
            _res.count("tests_failed_by_a_contract")
            _state.setdefault("failed", []).append((report.nodeid, str(report.longrepr)[-600:]))


def pytest_sessionfinish(session, exitstatus):
    path = os.environ.get("VERIF_CONTRACT_REPORT")
    if path:
        out = {"counters": dict(_res.counters), "failed_by_contract": _state.get("failed", []),
               "inconclusive": _res.inconclusive, "exitstatus": int(exitstatus)}
        with open(path, "w") as f:
            json.dump(out, f)
