"""Deterministic thread scheduler on sys.monitoring (C08).

Real threads, exactly one runnable at a time (baton passing on per-thread semaphores).  A
scheduling point is every LINE (or INSTRUCTION) event in the registered code objects, every
SchedLock acquire/release and every FakeSocket call.  The schedule is chosen by the checker:
`forced` maps a global point index to the thread that must run next; everything else follows
the default policy (keep running; at a block/finish pick the lowest runnable thread).  An
execution is deterministic given `forced`, so `forced` *is* the replay."""
from __future__ import annotations

import sys
import threading

mon = sys.monitoring
TOOL = 4          # a free tool id (0..5); 4 is not reserved by debugger/coverage/profiler/optimizer


class SchedAbort(BaseException):
    """Unwinds worker threads when a run is aborted (deadlock, watchdog)."""


class Deadlock(Exception):
    pass


_state = {"sched": None, "installed": False, "mode": None, "codes": []}


def _cb_line(code, line):
    s = _state["sched"]
    if s is not None and s.active:
        me = s.me()
        if me is not None:
            s.point(("line", code.co_name, line))
    return None


def _cb_instr(code, offset):
    s = _state["sched"]
    if s is not None and s.active:
        me = s.me()
        if me is not None:
            s.point(("ins", code.co_name, offset))
    return None


def install(codes, mode="line"):
    """Enable LINE or INSTRUCTION events for the given code objects only."""
    if not _state["installed"]:
        try:
            mon.use_tool_id(TOOL, "verif-sched")
        except ValueError:
            pass
        mon.register_callback(TOOL, mon.events.LINE, _cb_line)
        mon.register_callback(TOOL, mon.events.INSTRUCTION, _cb_instr)
        _state["installed"] = True
    ev = mon.events.LINE if mode == "line" else mon.events.INSTRUCTION
    for c in _state["codes"]:
        mon.set_local_events(TOOL, c, 0)
    for c in codes:
        mon.set_local_events(TOOL, c, ev)
    _state["codes"] = list(codes)
    _state["mode"] = mode


class SchedLock:
    """threading.Lock look-alike handed to the pool through lock_generator=."""

    def __init__(self, sched, name="lock", reentrant=False):
        self.sched = sched
        self.reentrant = reentrant
        self.depth = 0
        self.owner = None
        self.name = name
        self.waiters = []
        sched.locks.append(self)

    def acquire(self, blocking=True, timeout=-1):
        s = self.sched
        me = s.me()
        if me is None or not s.active:
            # controller / setup code: plain semantics
            if self.owner is not None:
                if not blocking:
                    return False
                raise RuntimeError("SchedLock held by a worker while the controller wants it")
            self.owner = "ctl"
            return True
        while True:
            s.point(("lock-acquire", self.name))
            if self.reentrant and self.owner == me:
                self.depth += 1
                return True
            if self.owner is None:
                self.owner = me
                self.depth = 1
                s.on_lock_acquired(me, self)
                return True
            if not blocking:
                return False
            self.waiters.append(me)
            s.lock_handoffs += 1
            s.block(me, ("lock", self.name))

    def release(self):
        s = self.sched
        me = s.me()
        if self.reentrant and self.depth > 1 and self.owner == me:
            self.depth -= 1
            return
        self.owner = None
        self.depth = 0
        if me is None or not s.active:
            return
        for w in self.waiters:
            s.unblock(w)
        self.waiters = []
        s.point(("lock-release", self.name))

    def locked(self):
        return self.owner is not None

    __enter__ = acquire

    def __exit__(self, *a):
        self.release()


class ThreadingShim:
    """Stands in for the `threading` module global of pymemcache.pool while a case runs: locks created through it are
    scheduler-aware, everything else is the real module."""

    def __init__(self, sched, real):
        self._sched, self._real = sched, real

    def Lock(self):
        return SchedLock(self._sched, "pool")

    def RLock(self):
        return SchedLock(self._sched, "pool", reentrant=True)

    def __getattr__(self, name):
        return getattr(self._real, name)


class Sched:
    def __init__(self, nthreads, forced=None, max_points=20000):
        self.n = nthreads
        self.forced = dict(forced or {})
        self.sems = [threading.Semaphore(0) for _ in range(nthreads)]
        self.state = ["new"] * nthreads          # new | runnable | blocked | finished
        self.idents = {}
        self.current = None
        self.counter = 0
        self.trace = []                          # (index, thread, runnable tuple, kind) at choice-relevant points
        self.switches = []                       # (index, from, to, preemptive?)
        self.active = False
        self.abort = False
        self.deadlock = None
        self.done = threading.Event()
        self.ready = threading.Semaphore(0)
        self.locks = []
        self.max_points = max_points
        self.overflow = False
        self.lock_handoffs = 0
        self.invariant_hook = None               # called at every point with (sched, thread, tag)
        self.errors = []
        self.preemptions = 0
        self.inside_switches = 0
        self._lock_acq_hook = None

    # -- identity
    def me(self):
        return self.idents.get(threading.get_ident())

    def runnable(self):
        return [i for i, st in enumerate(self.state) if st == "runnable"]

    def on_lock_acquired(self, me, lock):
        if self._lock_acq_hook:
            self._lock_acq_hook(me, lock)

    # -- scheduling points
    def point(self, tag):
        if self.abort:
            raise SchedAbort()
        me = self.me()
        i = self.counter
        self.counter = i + 1
        if i > self.max_points:
            self.overflow = True
            self._abort_all()
            raise SchedAbort()
        run = self.runnable()
        self.trace.append((i, me, tuple(run), tag[0]))
        if self.invariant_hook is not None:
            self.invariant_hook(self, me, tag)
        target = self.forced.get(i, me)
        if target != me and target in run:
            self.preemptions += 1
            if tag[0] in ("line", "ins", "sock"):
                self.inside_switches += 1
            self.switches.append((i, me, target, True))
            self._switch(me, target)

    def _switch(self, me, target):
        self.current = target
        self.sems[target].release()
        self.sems[me].acquire()
        if self.abort:
            raise SchedAbort()

    def block(self, me, why):
        """current thread cannot continue: hand the baton to another runnable thread (a choice, not a preemption)"""
        self.state[me] = "blocked"
        i = self.counter
        self.counter = i + 1
        run = self.runnable()
        self.trace.append((i, me, tuple(run), "block"))
        if not run:
            self.deadlock = "thread %d blocked on %r and no thread is runnable (states %r)" % (me, why, self.state)
            self._abort_all()
            raise SchedAbort()
        target = self.forced.get(i, run[0])
        if target not in run:
            target = run[0]
        self.switches.append((i, me, target, False))
        self._switch(me, target)

    def unblock(self, t):
        if self.state[t] == "blocked":
            self.state[t] = "runnable"

    def _abort_all(self):
        self.abort = True
        self.active = False
        for s in self.sems:
            s.release()
        self.done.set()

    # -- thread bodies
    def _worker(self, idx, fn):
        self.idents[threading.get_ident()] = idx
        self.ready.release()
        self.sems[idx].acquire()
        try:
            if not self.abort:
                fn()
        except SchedAbort:
            pass
        except BaseException as e:      # a worker program must catch what it expects
            self.errors.append((idx, repr(e)))
        finally:
            self.state[idx] = "finished"
            if not self.abort:
                i = self.counter
                self.counter = i + 1
                run = self.runnable()
                self.trace.append((i, idx, tuple(run), "finish"))
                if run:
                    target = self.forced.get(i, run[0])
                    if target not in run:
                        target = run[0]
                    self.switches.append((i, idx, target, False))
                    self.current = target
                    self.sems[target].release()
                elif all(st == "finished" for st in self.state):
                    self.active = False
                    self.done.set()
                else:
                    self.deadlock = "thread %d finished, nobody runnable, states %r" % (idx, self.state)
                    self._abort_all()

    def run(self, programs, timeout=20.0):
        """programs: list of callables, one per thread.  Returns True if the run completed."""
        _state["sched"] = self
        threads = [threading.Thread(target=self._worker, args=(i, p), daemon=True) for i, p in enumerate(programs)]
        for t in threads:
            t.start()
        for _ in range(self.n):
            self.ready.acquire(timeout=5)
        for i in range(self.n):
            self.state[i] = "runnable"
        self.active = True
        first = self.forced.get("start", 0)
        self.current = first
        self.trace.append(("start", None, tuple(range(self.n)), "start"))
        self.sems[first].release()
        ok = self.done.wait(timeout)
        self.active = False
        if not ok:
            self.overflow = True
            self._abort_all()
        for t in threads:
            t.join(2.0)
        _state["sched"] = None
        return ok and not self.abort


def codes_of(*classes_or_functions):
    """code objects (nested ones included) of the methods of the given classes / of the given functions"""
    out = []

    def walk(code):
        if code in out:
            return
        out.append(code)
        for c in code.co_consts:
            if hasattr(c, "co_code"):
                walk(c)
    for obj in classes_or_functions:
        members = vars(obj).values() if isinstance(obj, type) else [obj]
        for f in members:
            if isinstance(f, property):
                for acc in (f.fget, f.fset, f.fdel):
                    if acc is not None and hasattr(acc, "__code__"):
                        walk(acc.__code__)
                continue
            f = getattr(f, "__func__", f)
            f = getattr(f, "__wrapped__", f)
            if callable(f) and hasattr(f, "__code__"):
                walk(f.__code__)
    return out


def explore_threads(make, nthreads=2, P=2, budget=1000, on_run=None):
    """Iterative context bounding by prefix replay for small programs.  make(sched) -> (programs, judge); judge(ok, sched)
    -> None or (key, message).  Schedules with fewer preemptions are executed first (a budget that runs out has then cut
    the deepest schedules, not an arbitrary part).  Returns (executed, exhaustive, first_bad); first_bad = (key, message, forced)."""
    import heapq
    heap = [(0, 0, {})]
    tick = 0
    executed = 0
    while heap:
        if executed >= budget:
            return executed, False, None
        used, _, forced = heapq.heappop(heap)
        sch = Sched(nthreads, forced)
        programs, judge = make(sch)
        ok = sch.run(programs)
        executed += 1
        if on_run is not None:
            on_run(sch)
        bad = None
        if not ok or sch.deadlock or sch.errors:
            bad = ("did-not-complete", "deadlock %r errors %r overflow %r" % (sch.deadlock, sch.errors, sch.overflow))
        else:
            bad = judge(ok, sch)
        if bad:
            return executed, False, (bad[0], bad[1], forced)
        last = max([k for k in forced if isinstance(k, int)], default=-1)
        for (i, me, run, kind) in sch.trace:
            if i == "start":
                if not forced:
                    for t in run[1:]:
                        tick += 1
                        heapq.heappush(heap, (used, tick, {"start": t}))
                continue
            if i <= last:
                continue
            if kind in ("block", "finish"):
                for t in run[1:]:
                    f = dict(forced)
                    f[i] = t
                    tick += 1
                    heapq.heappush(heap, (used, tick, f))
            elif used < P:
                for t in run:
                    if t != me:
                        f = dict(forced)
                        f[i] = t
                        tick += 1
                        heapq.heappush(heap, (used + 1, tick, f))
    return executed, True, None
