"""Recursive seeded value generator for the serde / round-trip checks (C15, C04).
Classes live in this importable module so that pickle can find them."""
import dataclasses
import math
import os


class MyInt(int):
    pass


class MyStr(str):
    pass


class MyBytes(bytes):
    pass


class MyList(list):
    pass


class MyDict(dict):
    pass


@dataclasses.dataclass
class Point:
    x: int
    y: object = None


class Slotted:
    __slots__ = ("a", "b")

    def __init__(self, a, b):
        self.a, self.b = a, b

    def __getstate__(self):
        return (self.a, self.b)

    def __setstate__(self, st):
        self.a, self.b = st

    def __eq__(self, o):
        return type(o) is Slotted and same(self.a, o.a) and same(self.b, o.b)

    def __hash__(self):
        return 7

    def __repr__(self):
        return "Slotted(%r, %r)" % (self.a, self.b)


class Hooked:
    """A picklable value whose __reduce__ runs a callback while the pickler is in the middle of dumping it: the harness
    uses it to serialise another value through the same serde at that moment (re-entrantly or from another thread)."""
    hooks = {}

    def __init__(self, tag, payload):
        self.tag = tag
        self.payload = payload

    def __reduce__(self):
        h = Hooked.hooks.get(self.tag)
        if h is not None:
            h()
        return (Hooked, (self.tag, self.payload))

    def __eq__(self, other):
        return type(other) is Hooked and other.tag == self.tag and same(other.payload, self.payload)

    def __hash__(self):
        return hash(self.tag)


def same(a, b):
    """equal AND of exactly the same type, recursively"""
    if type(a) is not type(b):
        return False
    if isinstance(a, float):
        if a != a:
            return b != b
        return a == b and math.copysign(1, a) == math.copysign(1, b)
    if isinstance(a, (list, tuple)):
        return len(a) == len(b) and all(same(x, y) for x, y in zip(a, b))
    if isinstance(a, dict):
        if len(a) != len(b):
            return False
        for (k1, v1), (k2, v2) in zip(a.items(), b.items()):
            if not same(k1, k2) or not same(v1, v2):
                return False
        return True
    if isinstance(a, (set, frozenset)):
        if a != b:
            return False
        ka = sorted((type(x).__name__, repr(x)) for x in a)
        kb = sorted((type(x).__name__, repr(x)) for x in b)
        return ka == kb
    if isinstance(a, Point):
        return same(a.x, b.x) and same(a.y, b.y)
    return a == b


def shape(v, depth=0):
    """type shape used for the distinctness key"""
    t = type(v).__name__
    if isinstance(v, (list, tuple, set, frozenset)) and depth < 2:
        return (t, tuple(sorted({shape(x, depth + 1) for x in list(v)[:6]}, key=repr)))
    if isinstance(v, dict) and depth < 2:
        return (t, tuple(sorted({shape(x, depth + 1) for x in list(v.values())[:6]}, key=repr)))
    if isinstance(v, (bytes, str)):
        n = len(v)
        return (t, 0 if n == 0 else 1 if n < 10 else 2 if n < 400 else 3)
    if isinstance(v, int) and not isinstance(v, bool):
        d = len(str(abs(v))) if abs(v) < 10 ** 4000 else 4001
        return (t, v < 0, 0 if d < 3 else 1 if d < 11 else 2 if d < 400 else 3)
    return (t,)


def scalar(rng):
    c = rng.randrange(16)
    if c == 0:
        return rng.choice([b"", b"v", b"\r\n", b"END\r\n", b"\x00\xff", os.urandom(0) + bytes(rng.randrange(256) for _ in range(rng.randrange(1, 30)))])
    if c == 1:
        return rng.choice(["", "text", "£ $ €", "\r\n", "𝔘𝔫𝔦", "a" * rng.randrange(1, 50), "\x00", "naïve ☃"])
    if c == 2:
        return rng.choice([0, 1, -1, 255, 2 ** 31, -2 ** 31, 2 ** 63, 2 ** 64 - 1, -2 ** 64, 10 ** 50, -10 ** 50])
    if c == 3:
        return rng.choice([True, False, None])
    if c == 4:
        return rng.choice([0.0, -0.0, 1.5, -2.25, float("inf"), float("-inf"), float("nan"), 1e308, 5e-324])
    if c == 5:
        return rng.randrange(-10 ** rng.randrange(1, 60), 10 ** rng.randrange(1, 60))
    if c == 6:
        return MyInt(rng.randrange(-1000, 1000))
    if c == 7:
        return MyStr(rng.choice(["", "sub", "é"]))
    if c == 8:
        return MyBytes(rng.choice([b"", b"sub", b"\xff"]))
    if c == 9:
        return bytes(rng.randrange(256) for _ in range(rng.randrange(0, 80)))
    if c == 10:
        return "".join(chr(rng.choice((rng.randrange(32, 127), rng.randrange(0xA0, 0x3000), 0x1F600))) for _ in range(rng.randrange(0, 40)))
    if c == 11:
        return complex(rng.randrange(-5, 5), rng.randrange(-5, 5))
    if c == 12:
        return rng.choice([b"x" * 500, "y" * 500, b"ab" * 300])
    if c == 13:
        return 10 ** rng.randrange(1, 500) + rng.randrange(1000)
    if c == 14:
        return rng.choice([range(3), ..., NotImplemented, bytearray(b"ba")])
    return rng.choice([b"bytes", "str", 7])


def value(rng, depth=0):
    if depth >= 4 or rng.random() < 0.45:
        return scalar(rng)
    c = rng.randrange(11)
    n = rng.randrange(0, 4)
    if c == 0:
        return [value(rng, depth + 1) for _ in range(n)]
    if c == 1:
        return tuple(value(rng, depth + 1) for _ in range(n))
    if c == 2:
        return {hashable(rng): value(rng, depth + 1) for _ in range(n)}
    if c == 3:
        return {hashable(rng) for _ in range(n)}
    if c == 4:
        return frozenset(hashable(rng) for _ in range(n))
    if c == 5:
        return MyList(value(rng, depth + 1) for _ in range(n))
    if c == 6:
        return MyDict((hashable(rng), value(rng, depth + 1)) for _ in range(n))
    if c == 7:
        return Point(rng.randrange(100), value(rng, depth + 1))
    if c == 8:
        return Slotted(value(rng, depth + 1), scalar(rng))
    if c == 9:
        return (value(rng, depth + 1),)
    return [value(rng, depth + 1)] * 2


def hashable(rng):
    c = rng.randrange(8)
    if c == 0:
        return rng.choice([b"k", "k", 1, 2.5, None, True, (1, "a")])
    if c == 1:
        return rng.randrange(-100, 100)
    if c == 2:
        return "s%d" % rng.randrange(100)
    if c == 3:
        return b"b%d" % rng.randrange(100)
    if c == 4:
        return (rng.randrange(5), "t")
    if c == 5:
        return frozenset([rng.randrange(3)])
    if c == 6:
        return MyInt(rng.randrange(5) + 200)
    return float(rng.randrange(300, 310))


class TreeNode:
    """a parent-linked tree: every child points back at its parent (a reference cycle)"""

    def __init__(self, name, parent=None):
        self.name, self.parent, self.children = name, parent, []
        if parent is not None:
            parent.children.append(self)


class Rebindable:
    """a class whose module-level name is bound to a NEW class object during a run (importlib.reload, a re-executed class
    statement in a plugin): pickles name their class, so later instances must come back as instances of the class the
    name is bound to then"""
    generation = 0

    def __init__(self, x):
        self.x = x

    def __eq__(self, other):
        return type(other) is type(self) and other.x == self.x

    __hash__ = None


def rebind_rebindable():
    import sys
    mod = sys.modules[__name__]
    old = mod.Rebindable
    new = type("Rebindable", (), {"__module__": __name__, "__qualname__": "Rebindable", "generation": old.generation + 1,
                                  "__init__": lambda self, x: setattr(self, "x", x),
                                  "__eq__": lambda self, other: type(other) is type(self) and other.x == self.x, "__hash__": None,
                                  "__doc__": old.__doc__})
    mod.Rebindable = new
    return new
