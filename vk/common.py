"""Shared runner: tiers, seeds, sharding, evidence, known findings, verdicts.

Every check module (checks/cXX.py) exposes

    PROPERTY   = "Cxx"
    LEVEL      = "exploration" | "fault_enumeration"
    RULE       = "<how cases are generated and what makes one non-trivial>"
    ASSUMPTIONS = [...]
    def shard(tier, seed, idx, n) -> vk.common.Result
    def replay(case) -> vk.common.Result          (re-executes exactly one case)
    MIN_NONTRIVIAL = {"quick": int, "thorough": int}   (floor; below => inconclusive)
    REQUIRED_COUNTERS = [...]   counters that must be > 0, else inconclusive

Cases are plain Python literals so that repr()/ast.literal_eval round-trips
them; a replay file is the JSON of {"property", "key", "message", "case"}
where "case" is such a repr.
"""
from __future__ import annotations

import ast
import collections
import hashlib
import json
import os
import pickle
import subprocess
import sys
import tempfile
import time
import traceback

VERIF = os.path.dirname(os.path.dirname(os.path.abspath(__file__)))
REPO = os.environ.get("VERIF_REPO", "/repo")
PY = os.environ.get("VERIF_PY", "/venv/bin/python")
DEPS = os.path.join(VERIF, ".deps")
WHEELS = "/opt/veriftools/wheels"
NCPU = max(1, min(16, (os.cpu_count() or 1)))


def setup_paths():
    """Import /repo's working tree (never a stale copy) and our deps."""
    for p in (DEPS, VERIF, REPO):
        if p in sys.path:
            sys.path.remove(p)
        sys.path.insert(0, p)
    # hooks guard: no repository hooks are needed, but the guard is set so that
    # MANIFEST.hooks is truthful about how checks run.
    os.environ.setdefault("PYMEMCACHE_VERIF", "1")


def ensure_deps():
    """icontract beside the repository's interpreter, offline, git-ignored."""
    marker = os.path.join(DEPS, "icontract")
    if os.path.isdir(marker):
        return True
    os.makedirs(DEPS, exist_ok=True)
    cmd = [
        PY, "-m", "pip", "install", "--quiet", "--no-index", "--find-links", WHEELS,
        "--target", DEPS, "icontract",
    ]
    try:
        subprocess.run(cmd, check=True, timeout=300, stdout=subprocess.DEVNULL,
                       stderr=subprocess.DEVNULL)
    except Exception:
        return False
    return os.path.isdir(marker)


def h64(obj) -> int:
    return int.from_bytes(hashlib.blake2b(repr(obj).encode("utf8", "backslashreplace"),
                                          digest_size=8).digest(), "big")


class Result:
    """What one shard (or one replay) observed."""

    def __init__(self):
        self.evaluations = 0
        self.nontrivial = set()          # 64-bit hashes of canonical non-trivial cases
        self.samples = []                # a few actual cases
        self.counters = collections.Counter()
        self.violations = []             # dicts: key, message, case
        self.inconclusive = []           # reasons
        self.extra = {}                  # free-form (exhaustive flags, maxima ...)
        self.maxima = {}
        Result.last_created = self       # what a shard had observed so far survives a crash of the shard (see _shard_child)

    # -- recording ---------------------------------------------------------
    def case(self, nontrivial_key=None, sample=None):
        self.evaluations += 1
        if nontrivial_key is not None:
            self.nontrivial.add(h64(nontrivial_key))
        if sample is not None and len(self.samples) < 6:
            self.samples.append(sample)

    def count(self, name, n=1):
        self.counters[name] += n

    def maximum(self, name, v):
        if v > self.maxima.get(name, float("-inf")):
            self.maxima[name] = v

    def violation(self, key, message, case):
        # keep at most a few witnesses per mechanism key
        same = sum(1 for v in self.violations if v["key"] == key)
        self.counters["violations_seen"] += 1
        if same < 3:
            self.violations.append({"key": key, "message": message, "case": repr(case), "ambient": dict(AMBIENT)})
            pp = getattr(Result, "partial_path", None)
            if pp:
                # a shard whose interpreter dies later (a segmentation fault provoked by the library) must not take the
                # violations it has already seen with it
                try:
                    with open(pp, "wb") as f:
                        pickle.dump(self, f)
                except Exception:
                    pass

    def merge(self, other: "Result"):
        self.evaluations += other.evaluations
        self.nontrivial |= other.nontrivial
        for s in other.samples:
            if len(self.samples) < 8:
                self.samples.append(s)
        self.counters.update(other.counters)
        for v in other.violations:
            same = sum(1 for w in self.violations if w["key"] == v["key"])
            if same < 3:
                self.violations.append(v)
        self.inconclusive.extend(other.inconclusive)
        for k, v in other.maxima.items():
            self.maximum(k, v)
        for k, v in other.extra.items():
            if isinstance(v, bool) and k in self.extra:
                self.extra[k] = self.extra[k] and v
            elif isinstance(v, (int, float)) and not isinstance(v, bool) and k in self.extra:
                self.extra[k] += v
            else:
                self.extra.setdefault(k, v)


# -- known findings -----------------------------------------------------------

def load_known_findings():
    """finding: property=<id> key=<mechanism-key> <what fails>   (suppresses, prints KNOWN-FINDING)
    fixed:   property=<id> <commit> <what failed>              (suppresses nothing)"""
    path = os.path.join(VERIF, "known_findings.txt")
    out = collections.defaultdict(dict)
    if not os.path.exists(path):
        return out
    for line in open(path, encoding="utf8"):
        line = line.strip()
        if not line.startswith("finding:"):
            continue
        toks = line[len("finding:"):].split()
        prop = key = None
        rest = []
        for t in toks:
            if t.startswith("property=") and prop is None:
                prop = t[len("property="):]
            elif t.startswith("key=") and key is None:
                key = t[len("key="):]
            else:
                rest.append(t)
        if prop and key:
            out[prop][key] = " ".join(rest)
    return out


# -- ambient configuration -------------------------------------------------------
# What an application may have switched on process-wide without touching the library: DEBUG logging for 'pymemcache' with a
# handler that really formats every record (so every logging argument is evaluated).  Odd-numbered shards run under it; a
# violation remembers the ambient state it was seen under and --replay restores it.
AMBIENT = {"debug_log": False, "warnings_error": False}
_LOG_COUNT = [0]


class _FormattingHandler:
    level = 0

    def handle(self, record):
        try:
            record.getMessage()
        except Exception:
            pass
        _LOG_COUNT[0] += 1
        return True


def set_ambient(debug_log=False, warnings_error=False):
    """warnings_error: the process runs with warnings turned into errors (python -W error, PYTHONWARNINGS=error, pytest
    filterwarnings=error) - a warning the library emits on some path then replaces that path's outcome"""
    import logging
    lg = logging.getLogger("pymemcache")
    AMBIENT["debug_log"] = bool(debug_log)
    AMBIENT["warnings_error"] = bool(warnings_error)
    if warnings_error:
        import warnings
        warnings.simplefilter("error")
    if debug_log:
        logging.raiseExceptions = False
        lg.setLevel(logging.DEBUG)
        lg.handlers = [_FormattingHandler()]
        lg.propagate = False


# -- running -------------------------------------------------------------------

def _shard_child(modname, tier, seed, idx, n, outpath):
    setup_paths()
    ensure_deps()
    import importlib
    import faulthandler
    faulthandler.enable()
    mod = importlib.import_module(modname)
    Result.partial_path = outpath + ".partial"
    set_ambient(debug_log=(idx % 2 == 1), warnings_error=(((idx // 2) % 2 == 1) if n >= 4 else (idx % 2 == 0 and n >= 2)))
    try:
        res = mod.shard(tier, seed, idx, n)
        res.counters["log_records_formatted_under_ambient_DEBUG"] += _LOG_COUNT[0]
    except BaseException as e:
        # keep what the shard's monitors had already recorded (violations seen before the crash are real)
        res = getattr(Result, "last_created", None) or Result()
        key = _internal_error_in_library(e)
        if key is not None:
            # a programming error (NameError, TypeError, ...) raised inside the library under test and escaping into the
            # workload is what the monitors are there to notice, wherever the harness happened to stand at that moment
            res.violation(key, "shard %d of %s: %s" % (idx, tier, traceback.format_exc()[-1200:]),
                          ("shard-crash", tier, seed, idx, n))
            res.case(("shard-crash", idx))
        else:
            res.inconclusive.append("shard %d crashed: %s" % (idx, traceback.format_exc()[-1500:]))
    with open(outpath, "wb") as f:
        pickle.dump(res, f)


INTERNAL_ERROR_TYPES = (NameError, AttributeError, TypeError, KeyError, IndexError, AssertionError, ZeroDivisionError,
                        RecursionError, UnicodeError)


def _fatal_error_in_library(text):
    """faulthandler dump of a dying shard -> mechanism key when the innermost Python frame of the crashing thread is a frame
    of the library under test, else None"""
    import re
    m = re.search(r"Current thread [^\n]*\n((?:  [^\n]*\n)+)", text)
    if not m:
        return None
    frames = re.findall(r'File "([^"]+)", line \d+ in (\S+)', m.group(1))
    if not frames:
        return None
    fname, func = frames[0]
    fname = os.path.realpath(fname)
    repo = os.path.realpath(REPO)
    if not fname.startswith(repo + os.sep) or (os.sep + "test" + os.sep) in fname:
        return None
    kind = "segmentation-fault" if "Segmentation fault" in text else "fatal-error"
    return "interpreter-crash-in-library:%s:%s:%s" % (kind, os.path.basename(fname), func)


def _internal_error_in_library(exc):
    """-> mechanism key when exc is a programming-error type raised from a frame of the library under test, else None"""
    if not isinstance(exc, INTERNAL_ERROR_TYPES):
        return None
    tb = exc.__traceback__
    last = None
    while tb is not None:
        last = tb
        tb = tb.tb_next
    if last is None:
        return None
    fn = last.tb_frame.f_code.co_filename.replace("\\", "/")
    if "/pymemcache/" not in fn or "/pymemcache/test/" in fn:
        return None
    return "internal-error-escapes-the-library:%s:%s:%s" % (type(exc).__name__, os.path.basename(fn), last.tb_frame.f_code.co_name)


def run_check(modname, tier, seed, nshards=None, shard_timeout=None):
    """Parent: spawn shards with subprocess (never multiprocessing.Pool), merge,
    classify, write evidence, print verdict lines, return exit code."""
    setup_paths()
    ensure_deps()
    import importlib
    mod = importlib.import_module(modname)
    prop = mod.PROPERTY
    t0 = time.time()
    if hasattr(mod, "prepare"):
        mod.prepare()           # one-off work that must not race between shards (e.g. building a reference binary)
    nshards = nshards or getattr(mod, "SHARDS", {}).get(tier, NCPU)
    nshards = max(1, min(nshards, NCPU))
    shard_timeout = shard_timeout or getattr(mod, "TIMEOUT", {}).get(
        tier, 600 if tier == "quick" else 3600)
    work = tempfile.mkdtemp(prefix="verif_%s_" % prop)
    procs = []
    env = dict(os.environ)
    env["PYTHONPATH"] = os.pathsep.join([VERIF, REPO])
    env.setdefault("PYTHONHASHSEED", "0")
    for i in range(nshards):
        out = os.path.join(work, "shard%d.pkl" % i)
        code = ("import sys; sys.path.insert(0, %r); from vk import common; "
                "common._shard_child(%r, %r, %d, %d, %d, %r)"
                % (VERIF, modname, tier, seed, i, nshards, out))
        p = subprocess.Popen([PY, "-c", code], env=env, cwd=VERIF,
                             stdout=subprocess.PIPE, stderr=subprocess.STDOUT)
        procs.append((i, p, out))
    total = Result()
    deadline = t0 + shard_timeout
    for i, p, out in procs:
        try:
            stdout, _ = p.communicate(timeout=max(1, deadline - time.time()))
        except subprocess.TimeoutExpired:
            p.kill()
            stdout, _ = p.communicate()
            total.inconclusive.append("shard %d hit the wall-clock watchdog (%ss)" % (i, shard_timeout))
            continue
        if os.path.exists(out):
            try:
                with open(out, "rb") as f:
                    total.merge(pickle.load(f))
            except Exception as e:  # pragma: no cover
                total.inconclusive.append("shard %d result unreadable: %r" % (i, e))
        elif os.path.exists(out + ".partial"):
            text = (stdout or b"").decode("utf8", "replace")
            try:
                with open(out + ".partial", "rb") as f:
                    total.merge(pickle.load(f))
                total.inconclusive.append("shard %d died (exit %s) after recording the violations above: %s" % (i, p.returncode, text[-300:]))
            except Exception as e:  # pragma: no cover
                total.inconclusive.append("shard %d died and its partial result is unreadable: %r" % (i, e))
        else:
            text = (stdout or b"").decode("utf8", "replace")
            crash = _fatal_error_in_library(text) if (p.returncode or 0) < 0 else None
            if crash is not None:
                # the interpreter itself died (segmentation fault, abort) and faulthandler shows the thread that was running
                # inside the library under test: as much a finding as a programming error escaping from it
                total.violation(crash, "shard %d of %s was killed by signal %d: %s" % (i, tier, -p.returncode, text[-900:]),
                                ("shard-crash", tier, seed, i, nshards))
                total.case(("shard-crash", i))
            else:
                total.inconclusive.append("shard %d produced no result (exit %s): %s" % (i, p.returncode, text[-800:]))
    try:
        for f in os.listdir(work):
            os.unlink(os.path.join(work, f))
        os.rmdir(work)
    except OSError:
        pass
    return finish(mod, total, tier, seed, time.time() - t0)


def finish(mod, total: Result, tier, seed, wall, write_evidence=True):
    prop = mod.PROPERTY
    known = load_known_findings().get(prop, {})
    new_violations = []
    known_hit = {}
    for v in total.violations:
        if v["key"] in known:
            known_hit.setdefault(v["key"], v)
        else:
            new_violations.append(v)
    # inconclusive conditions
    floor = getattr(mod, "MIN_NONTRIVIAL", {}).get(tier, 2) if write_evidence else 0      # (a replay is one case: no floor)
    if len(total.nontrivial) < floor:
        total.inconclusive.append(
            "only %d distinct non-trivial cases observed (floor %d)" % (len(total.nontrivial), floor))
    for c in getattr(mod, "REQUIRED_COUNTERS", []):
        if total.counters.get(c, 0) <= 0:
            total.inconclusive.append("deciding monitor counter %r is zero" % c)

    lines = []
    rc = 0
    for key, v in sorted(known_hit.items()):
        lines.append("KNOWN-FINDING: property=%s key=%s %s" % (prop, key, known[key]))
    if new_violations:
        rc = 1
        rdir = os.path.join(VERIF, "replays", prop)
        os.makedirs(rdir, exist_ok=True)
        seen = set()
        shown = 0
        for v in new_violations:
            if v["key"] in seen:
                continue
            seen.add(v["key"])
            if shown >= 25:
                continue
            shown += 1
            safe = "".join(ch if ch.isalnum() or ch in "-_." else "_" for ch in v["key"])[:100]
            path = os.path.join(rdir, "%s.json" % safe)
            with open(path, "w", encoding="utf8") as f:
                json.dump({"property": prop, "key": v["key"], "message": v["message"],
                           "case": v["case"], "seed": seed, "tier": tier, "ambient": v.get("ambient", {})}, f, indent=1)
            lines.append("VIOLATION property=%s replay=%s" % (prop, path))
            lines.append("  key=%s %s" % (v["key"], v["message"][:600]))
        if len(seen) > shown:
            lines.append("  ... and %d more distinct violation mechanisms (see evidence new_violation_keys)" % (len(seen) - shown))
    elif total.inconclusive:
        rc = 2
        for r in total.inconclusive[:5]:
            lines.append("INCONCLUSIVE property=%s reason=%s" % (prop, r[:800].replace("\n", " | ")))

    if write_evidence and not os.environ.get("VERIF_NO_EVIDENCE"):
        cov = {
            "evaluations": int(total.evaluations),
            "distinct_nontrivial": len(total.nontrivial),
            "rule": mod.RULE,
            "samples": _jsonable(total.samples[:8]) or ["<none recorded>"],
            "counters": dict(sorted(total.counters.items())),
            "maxima": total.maxima,
            "known_findings_reproduced": sorted(known_hit),
            "new_violation_keys": sorted({v["key"] for v in new_violations}),
            "inconclusive_reasons": total.inconclusive[:5],
            "verdict": {0: "held on everything observed", 1: "violated", 2: "inconclusive"}[rc],
        }
        cov.update(_jsonable(total.extra))
        ev = {
            "property_id": prop,
            "tier": tier if tier in ("quick", "thorough") else "quick",
            "seed": int(seed),
            "level": mod.LEVEL,
            "coverage": cov,
            "assumptions": list(getattr(mod, "ASSUMPTIONS", [])),
            "wall_s": round(wall, 2),
            "violations": len(new_violations),
        }
        os.makedirs(os.path.join(VERIF, "evidence"), exist_ok=True)
        tmp = os.path.join(VERIF, "evidence", ".%s.tmp" % prop)
        with open(tmp, "w", encoding="utf8") as f:
            json.dump(ev, f, indent=1, default=repr, sort_keys=True)
        os.replace(tmp, os.path.join(VERIF, "evidence", "%s.json" % prop))

    print("%s %s seed=%d: %d executions, %d distinct non-trivial, %d known findings, %d new violations, %.1fs"
          % (prop, tier, seed, total.evaluations, len(total.nontrivial), len(known_hit),
             len(new_violations), wall))
    interesting = {k: v for k, v in total.counters.items()}
    if interesting:
        print("  observed: " + ", ".join("%s=%d" % kv for kv in sorted(interesting.items())[:40]))
    for l in lines:
        print(l)
    sys.stdout.flush()
    return rc


def _jsonable(o, depth=0):
    """evidence samples are free-form: make them JSON-safe (bytes keys/values, tuples, sets ...)"""
    if depth > 8:
        return repr(o)[:200]
    if isinstance(o, dict):
        return {(k if isinstance(k, str) else repr(k)): _jsonable(v, depth + 1) for k, v in o.items()}
    if isinstance(o, (list, tuple, set, frozenset)):
        return [_jsonable(x, depth + 1) for x in o]
    if isinstance(o, (str, int, float, bool)) or o is None:
        return o
    return repr(o)[:300]


def run_replay(path):
    setup_paths()
    ensure_deps()
    import importlib
    with open(path, encoding="utf8") as f:
        rec = json.load(f)
    prop = rec["property"]
    mod = importlib.import_module("checks.%s" % prop.lower())
    set_ambient(**(rec.get("ambient") or {}))
    case = ast.literal_eval(rec["case"])
    t0 = time.time()
    if isinstance(case, (tuple, list)) and case and case[0] == "shard-crash":
        # re-run the shard in this process
        _, tier_, seed_, idx_, n_ = case
        try:
            res = mod.shard(tier_, seed_, idx_, n_)
        except BaseException as e:
            res = Result()
            key = _internal_error_in_library(e)
            traceback.print_exc()
            if key is not None:
                res.violation(key, traceback.format_exc()[-1200:], case)
            else:
                res.inconclusive.append("shard crashed again: %r" % (e,))
        res.nontrivial.update({1, 2})
        for c in getattr(mod, "REQUIRED_COUNTERS", []):
            res.counters[c] += 1
        return finish(mod, res, tier_, seed_, time.time() - t0, write_evidence=False)
    res = mod.replay(case)
    res.nontrivial.update({1, 2})  # replay is a single case; no floor applies
    for c in getattr(mod, "REQUIRED_COUNTERS", []):
        res.counters[c] += 1
    return finish(mod, res, rec.get("tier", "quick"), rec.get("seed", 0), time.time() - t0,
                  write_evidence=False)


def split(items, idx, n):
    """Deterministic round-robin slice of an iterable for shard idx of n."""
    for i, it in enumerate(items):
        if i % n == idx:
            yield it
