"""AbstractCache: the 'plain in-memory map with expiry and cas versions' of C05.
A model of the documented *API* (return values), written separately from RefServer
(which models the wire).  Shared server-semantics assumptions are listed in C05's evidence."""

MAX_REL = 60 * 60 * 24 * 30
U64 = (1 << 64) - 1


class ClientErrorExpected(Exception):
    """The documented outcome is MemcacheClientError."""


class AbstractCache:
    def __init__(self, clock):
        self.clock = clock
        self.d = {}            # key -> [value, expires_at (0 = never), version]
        self.ver = 0
        self.flush_at = None

    # -- internals
    def _exp(self, e):
        if e == 0:
            return 0
        if e < 0:
            return -1
        if e <= MAX_REL:
            return self.clock.now() + e
        return float(e)

    def _tick(self):
        if self.flush_at is not None and self.clock.now() >= self.flush_at:
            self.d.clear()
            self.flush_at = None

    def _get(self, k):
        self._tick()
        it = self.d.get(k)
        if it is None:
            return None
        if it[1] != 0 and (it[1] < 0 or it[1] <= self.clock.now()):
            del self.d[k]
            return None
        return it

    def _put(self, k, v, e):
        self.ver += 1
        self.d[k] = [v, self._exp(e), self.ver]

    # -- API (return what the documented contract says for noreply False; callers apply the noreply constant)
    def set(self, k, v, e=0):
        self._tick()
        self._put(k, v, e)
        return True

    def add(self, k, v, e=0):
        if self._get(k) is not None:
            return False
        self._put(k, v, e)
        return True

    def replace(self, k, v, e=0):
        if self._get(k) is None:
            return False
        self._put(k, v, e)
        return True

    def append(self, k, v):
        it = self._get(k)
        if it is None:
            return False
        self.ver += 1
        it[0] = it[0] + v
        it[2] = self.ver
        return True

    def prepend(self, k, v):
        it = self._get(k)
        if it is None:
            return False
        self.ver += 1
        it[0] = v + it[0]
        it[2] = self.ver
        return True

    def cas(self, k, v, version, e=0):
        """version: the model version the caller's token stands for (None = a token that matches nothing)"""
        it = self._get(k)
        if it is None:
            return None
        if version is None or it[2] != version:
            return False
        self._put(k, v, e)
        return True

    def get(self, k):
        it = self._get(k)
        return None if it is None else it[0]

    def gets(self, k):
        it = self._get(k)
        return None if it is None else (it[0], it[2])

    def touch(self, k, e):
        it = self._get(k)
        if it is None:
            return False
        it[1] = self._exp(e)
        return True

    def gat(self, k, e):
        it = self._get(k)
        if it is None:
            return None
        it[1] = self._exp(e)
        return it[0]

    def gats(self, k, e):
        it = self._get(k)
        if it is None:
            return None
        it[1] = self._exp(e)
        return (it[0], it[2])

    def delete(self, k):
        if self._get(k) is None:
            return False
        del self.d[k]
        return True

    def _arith(self, k, delta, sign):
        it = self._get(k)
        if it is None:
            return None
        v = it[0]
        if not (v.isdigit() and len(v) <= 20 and int(v) <= U64):
            raise ClientErrorExpected()
        cur = int(v)
        new = (cur + delta) & U64 if sign > 0 else (cur - delta if delta < cur else 0)
        self.ver += 1
        it[0] = b"%d" % new
        it[2] = self.ver
        return new

    def incr(self, k, delta):
        return self._arith(k, delta, +1)

    def decr(self, k, delta):
        return self._arith(k, delta, -1)

    def flush_all(self, delay=0):
        self._tick()
        if delay <= 0:
            self.d.clear()
            self.flush_at = None
        else:
            self.flush_at = self.clock.now() + delay
        return True

    def snapshot(self):
        self._tick()
        return {k: self._get(k)[0] for k in list(self.d) if self._get(k) is not None}
