"""Shared history executor for the fault-enumeration checks (C01, C06, C07, C09, C10).

A *case* is a literal dict:
  stack, servers, cfg, ops=[(method, args, kwargs)...], faults={(call, sockcall): kind},
  seg=delivery schedule, faulted=index of the op the plan is about, advance=virtual seconds
  between calls (hash stacks need > retry_timeout so later calls reach the server).
Observation: per call -> outcome, alarms raised during it, sockets used/created, pool state
after it; plus the FakeNet ledger."""
from __future__ import annotations

from vk import catalogue, driver, fakenet


class Obs:
    pass


def kclass(k):
    if isinstance(k, tuple):
        if k[0] == "rline":
            return "rline-" + k[2]
        return "trunc-" + k[2]
    return k


def fault_class(faults):
    return "+".join(kclass(k) for _, k in sorted(faults.items())) or "nofault"


def execute(case, before_call=None, after_call=None):
    spec = {"stack": case["stack"], "servers": case["servers"], "cfg": dict(case["cfg"]),
            "seg": case.get("seg"),
            "prefill": case.get("prefill") if "prefill" in case else {
                i: catalogue.prefill_for(case["cfg"].get("key_prefix", b""))
                for i in range(len(case["servers"]))}}
    w = driver.World(spec)
    net = w.net
    net.faults = dict(case.get("faults") or {})
    o = Obs()
    o.world, o.net = w, net
    o.calls = []          # dicts per call
    adv = case.get("advance", 2 if w.stack.startswith("hash") else 0)
    try:
        for i, op in enumerate(case["ops"]):
            a0 = len(net.alarms)
            e0 = len(net.events)
            s0 = len(net.socks)
            if before_call:
                before_call(w, i, op)
            t0 = w.clock.now()
            slow = (case.get("slow") or {}).get(i)
            if slow:
                # a slow server: virtual time passes while the call waits in its first recv()
                state = {"done": False}

                def on_call(typ, sock, state=state, slow=slow):
                    if typ == fakenet.T_RECV and not state["done"]:
                        state["done"] = True
                        w.clock.advance(slow)
                net.on_call = on_call
            out = w.call(i, op)
            net.on_call = None
            rec = {"i": i, "op": op, "out": out, "alarms": net.alarms[a0:], "t0": t0, "t1": w.clock.now(),
                   "events": net.events[e0:], "new_socks": net.socks[s0:],
                   "recv": sum(1 for ev in net.events[e0:] if ev[0] == fakenet.T_RECV),
                   "io": sum(1 for ev in net.events[e0:] if ev[0] in (fakenet.T_RECV, fakenet.T_SENDALL)),
                   "used": [len(p.used) for p in w.pools()],
                   "free": [len(p.free) for p in w.pools()],
                   "unread": [(s.sid, s.pending()) for s in net.socks
                              if not s.closed and not s.peer_closed and i in s.pending_tags()]}
            o.calls.append(rec)
            if after_call:
                after_call(w, i, op, rec)
            if adv and op[0] not in ("advance", "health", "pidchange"):
                w.clock.advance(adv)
    finally:
        w.close()
    return o


def single_fault_plans(case, obs, tier, rng, kinds=None, base_exc=False, reply_faults=True,
                       call=None):
    """Plans {(call, idx): kind} for every socket call of the faulted call in the fault-free trace."""
    call = case["faulted"] if call is None else call
    calls = driver.socket_calls_by_call(obs.net).get(call, [])
    plans = []
    for idx, typ, sid in calls:
        if base_exc:
            for kind in fakenet.BASE_EXC_KINDS:
                plans.append({(call, idx): kind})
            continue
        for kind in fakenet.KINDS[typ]:
            if kinds is None or kind in kinds:
                plans.append({(call, idx): kind})
        if typ == fakenet.T_SENDALL and reply_faults:
            nrep, nbytes = obs.net.sendinfo.get((call, idx), (0, 0))
            for i in range(nrep):
                for variant in fakenet.REPLY_LINE_VARIANTS:
                    plans.append({(call, idx): ("rline", i, variant)})
            if nbytes <= 64 or tier == "thorough":
                cuts = range(nbytes)
            else:
                cuts = sorted(set(list(range(0, 24)) + list(range(nbytes - 8, nbytes))
                                  + [rng.randrange(nbytes) for _ in range(8)]))
            for b in cuts:
                for then in ("eof", "stall"):
                    plans.append({(call, idx): ("trunc", b, then)})
    return plans, calls
