"""RefServer: a from-scratch executable model of the memcached text protocol.

Reading is *stricter* than the real daemon (it is the C02 oracle): anything that is
not exactly a documented command is recorded as MALFORMED.  Answering follows
protocol.txt.  The store is shared by all sessions (connections) of one server.
"""
from __future__ import annotations

import re

MAX_REL_EXP = 60 * 60 * 24 * 30
U64 = (1 << 64) - 1
U32 = (1 << 32) - 1
ILLEGAL_KEY_BYTES = frozenset(b"\x00\x09\x0a\x0b\x0c\x0d\x20")

_UINT = re.compile(rb"^[0-9]+$")
_INT = re.compile(rb"^-?[0-9]+$")

STORAGE = {b"set", b"add", b"replace", b"append", b"prepend", b"cas"}


class VClock:
    def __init__(self, t=1_000_000.0):
        self.t = float(t)

    def now(self):
        return self.t

    def time(self):          # drop-in for time.time
        return self.t

    def advance(self, d):
        self.t += d

    def __call__(self):
        return self.t

    def patch_module(self, mod):
        """Put the virtual clock behind every way `mod` can have bound the standard clocks: its `time` module global and any
        global that IS one of time.time / monotonic / perf_counter / *_ns / sleep (from time import ...).  -> restore()"""
        import time as _real
        shim = self.module_shim()
        saved = []
        fns = ("time", "time_ns", "monotonic", "monotonic_ns", "perf_counter", "perf_counter_ns", "sleep")
        for name, val in list(vars(mod).items()):
            if val is _real or isinstance(val, _TimeShim):          # (another live world's shim is replaced like the real thing)
                saved.append((name, val))
                setattr(mod, name, shim)
                continue
            owner = getattr(val, "__self__", None)
            for fn in fns:
                if val is getattr(_real, fn) or (isinstance(owner, _TimeShim) and getattr(val, "__name__", "") == getattr(getattr(_TimeShim, fn), "__name__", fn)
                                                 and getattr(val, "__func__", None) is getattr(_TimeShim, fn)):
                    saved.append((name, val))
                    setattr(mod, name, getattr(shim, fn))
                    break

        def restore():
            for name, val in saved:
                setattr(mod, name, val)
        return restore

    def module_shim(self):
        """Stands in for the `time` module global of a library module: every clock the library may legitimately read
        (wall clock, monotonic, perf_counter, their _ns forms) follows the virtual clock - the monotonic family with a
        different origin, as on a real machine, so that mixing the two families shows - and sleeping advances it."""
        return _TimeShim(self)


class _TimeShim:
    MONO_ORIGIN = 999_000.25        # monotonic() = virtual now - this

    def __init__(self, clock):
        self._clock = clock

    def time(self):
        return self._clock.t

    def time_ns(self):
        return int(self._clock.t * 1_000_000_000)

    def monotonic(self):
        return self._clock.t - self.MONO_ORIGIN

    def monotonic_ns(self):
        return int((self._clock.t - self.MONO_ORIGIN) * 1_000_000_000)

    perf_counter = monotonic
    perf_counter_ns = monotonic_ns

    def sleep(self, d):
        self._clock.advance(d)

    def __getattr__(self, name):
        import time as _real
        return getattr(_real, name)


class Item:
    __slots__ = ("value", "flags", "exp", "cas")

    def __init__(self, value, flags, exp, cas):
        self.value, self.flags, self.exp, self.cas = value, flags, exp, cas


class Cmd:
    """One parsed command (strict)."""
    __slots__ = ("verb", "keys", "flags", "exptime", "nbytes", "data", "cas", "delta",
                 "noreply", "args", "tag", "raw", "reply")

    def __init__(self, verb, **kw):
        self.verb = verb
        self.keys = kw.get("keys", [])
        self.flags = kw.get("flags")
        self.exptime = kw.get("exptime")
        self.nbytes = kw.get("nbytes")
        self.data = kw.get("data")
        self.cas = kw.get("cas")
        self.delta = kw.get("delta")
        self.noreply = kw.get("noreply", False)
        self.args = kw.get("args", [])
        self.tag = None
        self.reply = None       # what the server answered (also recorded for noreply commands, which never see it)
        self.raw = kw.get("raw", b"")

    def sig(self):
        """Comparable summary (what C02/C16 compare)."""
        return (self.verb, tuple(self.keys), self.flags, self.exptime, self.nbytes,
                self.data, self.cas, self.delta, self.noreply, tuple(self.args))

    def __repr__(self):
        return "Cmd%r" % (self.sig(),)


class RefServer:
    def __init__(self, clock=None, name="s", item_limit=1 << 20, version=b"1.6.21",
                 shutdown_enabled=False, cluster_config=None):
        self.clock = clock or VClock()
        self.name = name
        self.item_limit = item_limit
        self.version = version
        self.shutdown_enabled = shutdown_enabled
        self.cluster_config = cluster_config   # (version:int, [(host, ip, port), ...]) or "ERROR"
        self.store = {}
        self.cas_counter = 0
        self.flush_at = None
        self.cmdlog = []        # every strictly-parsed command, all sessions, in arrival order
        self.malformed = []     # (raw bytes, reason)
        self.sessions = []
        self.health = "up"      # up | refused | timeout | reset  (used by FakeNet.connect / recv)
        self.verbosity = 0
        self.refuse_set = set()   # wire keys for which 'set' answers NOT_STORED (protocol.txt allows it)

    # -- store helpers ------------------------------------------------------
    def _abs_exp(self, exptime):
        if exptime == 0:
            return 0
        now = self.clock.now()
        if exptime < 0:
            return -1            # already expired
        if exptime <= MAX_REL_EXP:
            return now + exptime
        return float(exptime)

    def _tick(self):
        now = self.clock.now()
        if self.flush_at is not None and now >= self.flush_at:
            self.store.clear()
            self.flush_at = None

    def _live(self, key):
        it = self.store.get(key)
        if it is None:
            return None
        if it.exp != 0 and (it.exp < 0 or it.exp <= self.clock.now()):
            del self.store[key]
            return None
        return it

    def _next_cas(self):
        self.cas_counter += 1
        return self.cas_counter

    def live_items(self):
        self._tick()
        return {k: (it.value, it.flags, it.cas) for k in list(self.store) for it in [self._live(k)] if it}

    def session(self):
        s = Session(self)
        self.sessions.append(s)
        return s

    # -- command execution --------------------------------------------------
    def execute(self, c: Cmd):
        """-> (reply bytes, close_connection)"""
        self._tick()
        v = c.verb
        if v in STORAGE:
            key = c.keys[0]
            if len(c.data) > self.item_limit:
                return b"SERVER_ERROR object too large for cache\r\n", False
            it = self._live(key)
            if v == b"set":
                if key in self.refuse_set:
                    return b"NOT_STORED\r\n", False
                self.store[key] = Item(c.data, c.flags, self._abs_exp(c.exptime), self._next_cas())
                return b"STORED\r\n", False
            if v == b"add":
                if it is not None:
                    return b"NOT_STORED\r\n", False
                self.store[key] = Item(c.data, c.flags, self._abs_exp(c.exptime), self._next_cas())
                return b"STORED\r\n", False
            if v == b"replace":
                if it is None:
                    return b"NOT_STORED\r\n", False
                self.store[key] = Item(c.data, c.flags, self._abs_exp(c.exptime), self._next_cas())
                return b"STORED\r\n", False
            if v in (b"append", b"prepend"):
                if it is None:
                    return b"NOT_STORED\r\n", False
                nv = it.value + c.data if v == b"append" else c.data + it.value
                if len(nv) > self.item_limit:
                    return b"SERVER_ERROR object too large for cache\r\n", False
                self.store[key] = Item(nv, it.flags, it.exp, self._next_cas())
                return b"STORED\r\n", False
            if v == b"cas":
                if it is None:
                    return b"NOT_FOUND\r\n", False
                if it.cas != c.cas:
                    return b"EXISTS\r\n", False
                self.store[key] = Item(c.data, c.flags, self._abs_exp(c.exptime), self._next_cas())
                return b"STORED\r\n", False
        if v in (b"get", b"gets", b"gat", b"gats"):
            out = []
            for key in c.keys:
                it = self._live(key)
                if it is None:
                    continue
                if v in (b"gat", b"gats"):
                    it.exp = self._abs_exp(c.exptime)
                    if self._live(key) is None:
                        # touched into the past: real memcached still returns it this once
                        pass
                if v in (b"gets", b"gats"):
                    out.append(b"VALUE %s %d %d %d\r\n" % (key, it.flags, len(it.value), it.cas))
                else:
                    out.append(b"VALUE %s %d %d\r\n" % (key, it.flags, len(it.value)))
                out.append(it.value + b"\r\n")
            out.append(b"END\r\n")
            return b"".join(out), False
        if v == b"delete":
            if self._live(c.keys[0]) is None:
                return b"NOT_FOUND\r\n", False
            del self.store[c.keys[0]]
            return b"DELETED\r\n", False
        if v in (b"incr", b"decr"):
            it = self._live(c.keys[0])
            if it is None:
                return b"NOT_FOUND\r\n", False
            if not _UINT.match(it.value) or len(it.value) > 20 or int(it.value) > U64:
                return b"CLIENT_ERROR cannot increment or decrement non-numeric value\r\n", False
            cur = int(it.value)
            if v == b"incr":
                new = (cur + c.delta) & U64
            else:
                new = cur - c.delta if c.delta < cur else 0
            it.value = b"%d" % new
            it.cas = self._next_cas()
            return it.value + b"\r\n", False
        if v == b"touch":
            it = self._live(c.keys[0])
            if it is None:
                return b"NOT_FOUND\r\n", False
            it.exp = self._abs_exp(c.exptime)
            return b"TOUCHED\r\n", False
        if v == b"flush_all":
            delay = c.exptime or 0
            if delay <= 0:
                self.store.clear()
                self.flush_at = None
            else:
                self.flush_at = self.clock.now() + delay
            return b"OK\r\n", False
        if v == b"version":
            return b"VERSION " + self.version + b"\r\n", False
        if v == b"verbosity":
            return b"OK\r\n", False
        if v == b"cache_memlimit":
            return b"OK\r\n", False
        if v == b"stats":
            if not c.args:
                lines = [b"STAT pid 4242", b"STAT uptime 12", b"STAT version " + self.version,
                         b"STAT curr_items %d" % len(self.store), b"STAT rusage_user 0.120000",
                         b"STAT hash_is_expanding 0", b"STAT threads 4"] + list(getattr(self, "extra_stats", ()))
            elif c.args[0] == b"settings":
                lines = [b"STAT maxbytes 67108864", b"STAT inter ", b"STAT growth_factor 1.25",
                         b"STAT stat_key_prefix :", b"STAT umask 700", b"STAT detail_enabled no",
                         b"STAT cas_enabled yes", b"STAT auth_enabled_sasl no", b"STAT evictions on"]
            elif c.args[0] == b"cachedump":
                lines = [b"ITEM %s [%d b; 0 s]" % (k, len(it.value)) for k, it in sorted(self.store.items())
                         if b" " not in k][:5]
            elif c.args[0] == b"detail":
                if c.args[1:] == [b"dump"]:
                    return b"PREFIX user get 3 hit 2 set 1 del 0\r\nPREFIX item get 1 hit 0 set 1 del 1\r\nEND\r\n", False
                return b"OK\r\n", False
            elif c.args[0] == b"reset":
                return b"RESET\r\n", False
            elif c.args[0] in (b"items", b"slabs", b"sizes", b"conns"):
                lines = [b"STAT items:1:number %d" % len(self.store), b"STAT items:1:age 3"]
            else:
                lines = []
            return b"".join(l + b"\r\n" for l in lines) + b"END\r\n", False
        if v == b"quit":
            return b"", True
        if v == b"shutdown":
            if self.shutdown_enabled:
                return b"", True
            return b"ERROR: shutdown not enabled\r\n", False
        if v == b"config":
            cfg = self.cluster_config
            if cfg is None or cfg == "ERROR":
                return b"ERROR\r\n", False
            if isinstance(cfg, bytes):
                return cfg, False           # a scripted (e.g. empty or garbled) answer
            ver, nodes = cfg
            body = b"%d\n" % ver + b" ".join(b"%s|%s|%d" % (h.encode(), ip.encode(), p) for h, ip, p in nodes) + b"\n"
            return b"CONFIG cluster 0 %d\r\n" % len(body) + body + b"\r\nEND\r\n", False
        raise AssertionError("unhandled verb %r" % v)


class Session:
    """One connection.  feed() returns the replies caused by the bytes just received."""

    def __init__(self, server: RefServer):
        self.server = server
        self.buf = b""
        self.closed = False
        self.cmds = []          # parsed commands on this connection

    def _mal(self, raw, why):
        self.server.malformed.append((bytes(raw[:200]), why))

    def _key_ok(self, k):
        return 1 <= len(k) <= 250 and not any(b in ILLEGAL_KEY_BYTES for b in k)

    def _consume(self, n):
        """n bytes leave the buffer: keep the per-byte origin bookkeeping in step"""
        while n > 0 and self.segs:
            if self.segs[0][0] <= n:
                n -= self.segs[0][0]
                self.segs.pop(0)
            else:
                self.segs[0][0] -= n
                n = 0

    def feed(self, data: bytes, tag=None):
        """-> list of (reply_bytes, tag, cmd) in order; sets self.closed on quit/shutdown.
        A reply is tagged with the call that sent the FIRST byte of the command it answers: a command line completed by
        a later call (after an aborted partial send) still answers the earlier call's request."""
        if not hasattr(self, "segs"):
            self.segs = []
        if data:
            self.segs.append([len(data), tag])
        self.buf += data
        out = []
        feed_tag = tag
        while not self.closed:
            tag = self.segs[0][1] if self.segs else feed_tag
            before = len(self.buf)
            eol = self.buf.find(b"\r\n")
            if eol < 0:
                break
            line = self.buf[:eol]
            rest = self.buf[eol + 2:]
            cmd, need, err = self._parse_line(line)
            if err is not None:
                self._mal(line, err)
                self.buf = rest
                self._consume(before - len(self.buf))
                out.append((b"ERROR\r\n", tag, None))
                continue
            if need is not None:
                # storage command: need <nbytes> of data + CRLF
                if len(rest) < need + 2:
                    break            # wait for more
                data_block = rest[:need]
                term = rest[need:need + 2]
                if term != b"\r\n":
                    self._mal(line + b"\r\n" + rest[:need + 2], "data block not followed by CRLF")
                    # resynchronise like memcached: swallow up to the next line end
                    nxt = rest.find(b"\r\n", need)
                    self.buf = rest[nxt + 2:] if nxt >= 0 else b""
                    self._consume(before - len(self.buf))
                    if not cmd.noreply:
                        out.append((b"CLIENT_ERROR bad data chunk\r\n", tag, None))
                    continue
                cmd.data = data_block
                cmd.raw = line + b"\r\n" + data_block + b"\r\n"
                self.buf = rest[need + 2:]
            else:
                cmd.raw = line + b"\r\n"
                self.buf = rest
            self._consume(before - len(self.buf))
            cmd.tag = tag
            self.cmds.append(cmd)
            self.server.cmdlog.append(cmd)
            reply, close = self.server.execute(cmd)
            cmd.reply = reply
            if close:
                self.closed = True
            if reply and not cmd.noreply:
                out.append((reply, tag, cmd))
        return out

    # strict line parser ------------------------------------------------------
    def _parse_line(self, line):
        """-> (Cmd, bytes_needed or None, error or None)"""
        if b"\n" in line or b"\r" in line:
            return None, None, "bare CR or LF inside a command line"
        toks = line.split(b" ")
        if any(t == b"" for t in toks):
            return None, None, "empty token (double space, leading/trailing space or empty line)"
        verb = toks[0]
        args = toks[1:]
        noreply = False

        def take_noreply(maxargs):
            nonlocal args, noreply
            if len(args) == maxargs and args[-1] == b"noreply":
                noreply = True
                args = args[:-1]

        if verb in STORAGE:
            n = 5 if verb == b"cas" else 4
            take_noreply(n + 1)
            if len(args) != n:
                return None, None, "wrong number of tokens for %s" % verb.decode()
            key, flags, exptime, nbytes = args[:4]
            if not self._key_ok(key):
                return None, None, "illegal key"
            if not _UINT.match(flags) or int(flags) > U32:
                return None, None, "flags not a 32-bit unsigned decimal"
            if not _INT.match(exptime) or not (-(1 << 63) <= int(exptime) < (1 << 63)):
                return None, None, "exptime not a signed 64-bit decimal"
            if not _UINT.match(nbytes):
                return None, None, "bytes not a decimal"
            cas = None
            if verb == b"cas":
                if not _UINT.match(args[4]) or int(args[4]) > U64:
                    return None, None, "cas unique not a 64-bit unsigned decimal"
                cas = int(args[4])
            c = Cmd(verb, keys=[key], flags=int(flags), exptime=int(exptime), nbytes=int(nbytes),
                    cas=cas, noreply=noreply)
            return c, int(nbytes), None
        if verb in (b"get", b"gets"):
            if not args:
                return None, None, "get without key"
            for k in args:
                if not self._key_ok(k):
                    return None, None, "illegal key"
            return Cmd(verb, keys=list(args)), None, None
        if verb in (b"gat", b"gats"):
            if len(args) < 2:
                return None, None, "gat without exptime/key"
            if not _INT.match(args[0]) or not (-(1 << 63) <= int(args[0]) < (1 << 63)):
                return None, None, "exptime not a signed 64-bit decimal"
            for k in args[1:]:
                if not self._key_ok(k):
                    return None, None, "illegal key"
            return Cmd(verb, keys=list(args[1:]), exptime=int(args[0])), None, None
        if verb == b"delete":
            take_noreply(2)
            if len(args) != 1 or not self._key_ok(args[0]):
                return None, None, "bad delete"
            return Cmd(verb, keys=[args[0]], noreply=noreply), None, None
        if verb in (b"incr", b"decr"):
            take_noreply(3)
            if len(args) != 2 or not self._key_ok(args[0]):
                return None, None, "bad incr/decr"
            if not _UINT.match(args[1]) or int(args[1]) > U64:
                return None, None, "delta not a 64-bit unsigned decimal"
            return Cmd(verb, keys=[args[0]], delta=int(args[1]), noreply=noreply), None, None
        if verb == b"touch":
            take_noreply(3)
            if len(args) != 2 or not self._key_ok(args[0]):
                return None, None, "bad touch"
            if not _INT.match(args[1]) or not (-(1 << 63) <= int(args[1]) < (1 << 63)):
                return None, None, "exptime not a signed 64-bit decimal"
            return Cmd(verb, keys=[args[0]], exptime=int(args[1]), noreply=noreply), None, None
        if verb == b"flush_all":
            if args and args[-1] == b"noreply":
                noreply = True
                args = args[:-1]
            if len(args) > 1 or (args and not _UINT.match(args[0])):
                return None, None, "bad flush_all"
            return Cmd(verb, exptime=int(args[0]) if args else 0, noreply=noreply,
                       args=list(args)), None, None
        if verb == b"version" or verb == b"quit":
            if args:
                return None, None, "%s takes no arguments" % verb.decode()
            return Cmd(verb, noreply=(verb == b"quit")), None, None
        if verb == b"shutdown":
            if args not in ([], [b"graceful"]):
                return None, None, "bad shutdown"
            return Cmd(verb, args=list(args)), None, None
        if verb in (b"verbosity", b"cache_memlimit"):
            take_noreply(2)
            if len(args) != 1 or not _UINT.match(args[0]):
                return None, None, "bad %s" % verb.decode()
            return Cmd(verb, args=list(args), noreply=noreply), None, None
        if verb == b"stats":
            return Cmd(verb, args=list(args)), None, None
        if verb == b"config":
            if args != [b"get", b"cluster"]:
                return None, None, "bad config"
            return Cmd(verb, args=list(args)), None, None
        return None, None, "unknown verb %r" % verb[:20]
