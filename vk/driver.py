"""Driver: builds real client stacks over FakeNet from literal specs, executes histories of
public calls with a call-id context, and records outcomes.  Specs are plain literals so a
case can be written to a replay file and re-executed exactly."""
from __future__ import annotations

import random

from vk import fakenet
from vk.fakenet import FakeNet, FakeTLSContext
from vk.refserver import RefServer, VClock


def make_seg(spec, default_seed=0):
    if not spec or spec[0] == "whole":
        return fakenet.Whole()
    if spec[0] == "single":
        return fakenet.SingleBytes()
    if spec[0] == "cuts":
        return fakenet.CutSet(spec[1], spec[2] if len(spec) > 2 else ())
    if spec[0] == "random":
        return fakenet.RandomCuts(random.Random(spec[1]), *(spec[2:]))
    raise ValueError(spec)


class World:
    """FakeNet + servers + the client stack under test."""

    def __init__(self, spec):
        import pymemcache.client.base as base
        import pymemcache.client.hash as hashmod
        self.spec = spec
        self.clock = VClock()
        self.net = FakeNet(make_seg(spec.get("seg")))
        self.net.clock = self.clock
        self.servers = {}
        servers = spec.get("servers") or [("mc1", 11211)]
        for s in servers:
            if isinstance(s, str):                      # unix path
                self.servers[s] = self.net.add_unix(s, RefServer(self.clock, name=s))
            else:
                host, port = s[0], s[1]
                ips = s[2] if len(s) > 2 else None
                self.servers[(host, port)] = self.net.add_server(
                    host, port, RefServer(self.clock, name="%s:%s" % (host, port)), ips=ips)
        for srv_key, items in (spec.get("prefill") or {}).items():
            srv = self.servers[srv_key] if srv_key in self.servers else list(self.servers.values())[srv_key]
            for k, (v, fl) in items.items():
                srv.store[k] = __import__("vk.refserver", fromlist=["Item"]).Item(v, fl, 0, srv._next_cas())
        cfg = dict(spec.get("cfg") or {})
        if cfg.pop("tls", False):
            self.tls = FakeTLSContext(self.net)
            cfg["tls_context"] = self.tls
        else:
            self.tls = None
        serde = cfg.pop("serde", None)
        if serde is not None:
            cfg["serde"] = make_serde(serde)
        harness_client_class = cfg.pop("harness_client_class", None)
        cfg["socket_module"] = self.net
        stack = spec.get("stack", "client")
        self.stack = stack
        if "pooled" in stack:
            # pool.py stores time.time in _idle_clock at construction: substitute the virtual clock first
            import pymemcache.pool as poolmod

            self._restore_clocks = getattr(self, "_restore_clocks", []) + [self.clock.patch_module(poolmod)]
        first = servers[0] if isinstance(servers[0], str) else (servers[0][0], servers[0][1])
        hash_servers = [s if isinstance(s, str) else (s[0], s[1]) for s in servers]
        if stack == "client":
            self.obj = base.Client(first, **cfg)
        elif stack == "pooled":
            self.obj = base.PooledClient(first, **cfg)
            if harness_client_class == "falsy":
                # client_class is the documented hook for a Client subclass; this one is falsy (a __len__ that reports the
                # number of items it has cached locally, say): the pool holds objects, not truth values
                self.obj.client_class = _falsy_client_class()
        elif stack == "hash":
            self.patch_time(hashmod)
            self.obj = hashmod.HashClient(hash_servers, **cfg)
        elif stack == "hashpooled":
            self.patch_time(hashmod)
            self.obj = hashmod.HashClient(hash_servers, use_pooling=True, **cfg)
        else:
            raise ValueError(stack)
        self.outcomes = []

    # virtual time for hash.py (module global looked up at call time)
    def patch_time(self, hashmod):
        self._restore_clocks = getattr(self, "_restore_clocks", []) + [self.clock.patch_module(hashmod)]

    def close(self):
        for r_ in reversed(getattr(self, "_restore_clocks", [])):
            r_()
        self._restore_clocks = []
        if hasattr(self, "_real_getpid"):
            import os
            os.getpid = self._real_getpid
            del self._real_getpid

    def inner_clients(self):
        """Every pymemcache Client object that may own a socket (for leak accounting)."""
        import pymemcache.client.base as base
        out = []

        def walk(o):
            if isinstance(o, base.Client):
                out.append(o)
            elif isinstance(o, base.PooledClient):
                for c in tuple(o.client_pool.used) + tuple(o.client_pool.free):
                    walk(c)
            elif hasattr(o, "clients"):
                for c in o.clients.values():
                    walk(c)
        walk(self.obj)
        return out

    def pools(self):
        import pymemcache.client.base as base
        if isinstance(self.obj, base.PooledClient):
            return [self.obj.client_pool]
        if hasattr(self.obj, "clients"):
            return [c.client_pool for c in self.obj.clients.values() if isinstance(c, base.PooledClient)]
        return []

    def call(self, i, op):
        """Execute one public call under call-id i.  op = (method, args, kwargs)."""
        name, args, kwargs = op[0], op[1], (op[2] if len(op) > 2 else {})
        if name == "advance":
            self.clock.advance(args[0])
            out = ("ret", None)
            self.outcomes.append(out)
            return out
        if name == "pidchange":
            # the process is now a forked child: same objects, another pid (restored when the world is closed)
            import os
            if not hasattr(self, "_real_getpid"):
                self._real_getpid = os.getpid
            pid = os.getpid() + 1
            os.getpid = lambda: pid
            out = ("ret", None)
            self.outcomes.append(out)
            return out
        if name == "health":
            list(self.servers.values())[args[0]].health = args[1]
            out = ("ret", None)
            self.outcomes.append(out)
            return out
        self.net.begin_call(i)
        flags = op[3] if len(op) > 3 else {}
        try:
            if flags.get("in_except"):
                # the caller is in the middle of handling some unrelated exception of its own (an except block, a __exit__
                # during unwinding): sys.exc_info() is not empty while the library runs
                try:
                    raise LookupError("the caller's own, unrelated exception")
                except LookupError:
                    if name in ("__getitem__", "__setitem__", "__delitem__"):
                        r = getattr(type(self.obj), name)(self.obj, *args)
                    else:
                        r = getattr(self.obj, name)(*args, **kwargs)
            elif name in ("__getitem__", "__setitem__", "__delitem__"):
                r = getattr(type(self.obj), name)(self.obj, *args)
            else:
                r = getattr(self.obj, name)(*args, **kwargs)
            out = ("ret", r)
        except Exception as e:
            out = ("exc", type(e).__name__, str(e)[:120])
        except BaseException as e:      # injected interrupts reach the caller
            out = ("baseexc", type(e).__name__, str(e)[:120])
        finally:
            self.net.end_call()
        self.outcomes.append(out)
        return out


def _falsy_client_class():
    import pymemcache.client.base as base

    class FalsyClient(base.Client):
        def __len__(self):
            return 0
    return FalsyClient


class RaisingSerde:
    """A serde whose deserializer raises for flags 99 (undeserialisable item)."""

    def serialize(self, key, value):
        return value, 0

    def deserialize(self, key, value, flags):
        if flags == 99:
            raise ValueError("cannot deserialize item with flags 99")
        return value


def make_serde(spec):
    from pymemcache import serde
    if spec == "pickle":
        return serde.PickleSerde()
    if isinstance(spec, tuple) and spec[0] == "pickle":
        return serde.PickleSerde(pickle_version=spec[1])
    if spec == "compressed":
        return serde.CompressedSerde(min_compress_len=spec[1] if isinstance(spec, tuple) else 400)
    if isinstance(spec, tuple) and spec[0] == "compressed":
        return serde.CompressedSerde(min_compress_len=spec[1])
    if spec == "raising":
        return RaisingSerde()
    raise ValueError(spec)


def socket_calls_by_call(net):
    """{callid: [(idx, type, sockid)]} from the chronological trace."""
    out = {}
    for typ, sid, call, idx in net.events:
        out.setdefault(call, []).append((idx, typ, sid))
    return out
