"""FakeNet: the object handed to pymemcache as ``socket_module=``.

It is the observation point for every socket the library ever creates: a ledger of
sockets (who created them, which calls were made in which order, the timeout in
force at each call, closes), reply bytes tagged with the public call whose command
caused them, fault injection by position in the socket-call sequence of a public
call, and delivery (segmentation) schedules chosen by the checker.
Only genuine builtin exception types are raised.
"""
from __future__ import annotations

import collections
import errno
import socket as _real_socket
import sys
import threading

from vk.refserver import RefServer

# socket-call types (used in traces and fault plans)
T_GAI, T_SOCKET, T_SETSOCKOPT, T_WRAP, T_SETTIMEOUT, T_CONNECT, T_SENDALL, T_RECV, T_CLOSE = (
    "getaddrinfo", "socket", "setsockopt", "wrap_socket", "settimeout", "connect", "sendall",
    "recv", "close")
T_UNWRAP = "unwrap"         # the orderly TLS shutdown a client may perform before close() (ssl.SSLSocket.unwrap)


class GreenletTimeout(BaseException):
    """A gevent-style timeout: a BaseException that is not an Exception."""


BASE_EXC_KINDS = {"kbint": KeyboardInterrupt, "sysexit": SystemExit, "greenlet": GreenletTimeout}
# the same interrupts arriving in sendall() *after* the bytes went out (the request is on its way, a reply will come)
BASE_EXC_DELIVERED = {"kbint_delivered": KeyboardInterrupt, "greenlet_delivered": GreenletTimeout,
                      # ... or after only part of them went out (the peer holds a fragment of a command)
                      "kbint_partial": KeyboardInterrupt, "greenlet_partial": GreenletTimeout}

# fault kinds applicable to each socket-call type (ordinary failures)
KINDS = {
    T_GAI: ["gaierror"],
    T_SOCKET: ["oserror"],
    T_SETSOCKOPT: ["oserror"],
    T_WRAP: ["oserror"],
    T_UNWRAP: ["oserror"],
    T_SETTIMEOUT: ["oserror", "valueerror"],
    T_CONNECT: ["refused", "timeout", "unreach", "overflow"],
    T_SENDALL: ["reset", "brokenpipe", "timeout", "timeout_delivered", "eintr_partial", "timeout_partial"],
    T_RECV: ["timeout", "reset", "eof", "eintr1", "eintr3", "eagain"],
    T_CLOSE: ["oserror"],
}
REPLY_LINE_VARIANTS = {
    "error": b"ERROR\r\n",
    "client_error": b"CLIENT_ERROR injected fault\r\n",
    "server_error": b"SERVER_ERROR out of memory storing object\r\n",
    "garbage": b"\x00\xffgarbage line without meaning\r\n",
    "wrongkind_stored": b"STORED\r\n",
    "wrongkind_end": b"END\r\n",
    "wrongkind_value": b"VALUE zzz 0 1\r\n",
    "wrongkind_number": b"12345\r\n",
    "empty": b"\r\n",
    "long_server_error": b"SERVER_ERROR " + b"out of memory storing object " * 6 + b"\r\n",
    # a complete, well-formed fetch reply - for a key nobody asked for (a proxy mixing up requests); for commands other
    # than fetches it degrades to the single line above (a reply longer than any reply of that command is outside C01)
    "foreign_item": b"VALUE zzz 0 1\r\nx\r\nEND\r\n",
}


def make_exc(kind):
    if kind in BASE_EXC_KINDS:
        return BASE_EXC_KINDS[kind]("injected " + kind)
    if kind in BASE_EXC_DELIVERED:
        return BASE_EXC_DELIVERED[kind]("injected " + kind)
    if kind == "gaierror":
        return _real_socket.gaierror(-2, "Name or service not known (injected)")
    if kind == "oserror":
        return OSError(errno.EMFILE, "injected OSError")
    if kind == "valueerror":
        return ValueError("Timeout value out of range (injected)")       # what settimeout(-1) raises
    if kind == "overflow":
        return OverflowError("bind(): port must be 0-65535. (injected)")  # what connect((h, 70000)) raises
    if kind == "refused":
        return ConnectionRefusedError(errno.ECONNREFUSED, "Connection refused (injected)")
    if kind == "nosocket":
        # what socket(AF_INET6, ...) raises on a host without that protocol family
        return OSError(errno.EAFNOSUPPORT, "Address family not supported by protocol (injected: no socket for this server)")
    if kind == "unreach":
        return OSError(errno.ENETUNREACH, "Network is unreachable (injected)")
    if kind in ("timeout", "timeout_delivered", "timeout_partial"):
        return TimeoutError("timed out (injected)")
    if kind == "eintr_partial":
        return InterruptedError(errno.EINTR, "Interrupted system call after a partial write (injected)")
    if kind == "eagain":
        return BlockingIOError(errno.EAGAIN, "Resource temporarily unavailable (injected)")
    if kind == "reset":
        return ConnectionResetError(errno.ECONNRESET, "Connection reset by peer (injected)")
    if kind == "brokenpipe":
        return BrokenPipeError(errno.EPIPE, "Broken pipe (injected)")
    raise ValueError(kind)


# -- delivery schedules ----------------------------------------------------------

class Whole:
    name = "whole"

    def piece(self, pos, avail, n):
        return min(avail, n)

    def eintr(self, pos):
        return False


class SingleBytes(Whole):
    name = "single-bytes"

    def piece(self, pos, avail, n):
        return 1


class CutSet(Whole):
    """cuts: sorted absolute offsets in the stream delivered on one socket since begin_call;
    eintr: offsets at which an EINTR is raised before the piece starting there (an offset listed k times: k in a row)."""

    def __init__(self, cuts, eintr=()):
        self.cuts = sorted(set(cuts))
        self.eintr_at = collections.Counter(eintr)
        self.name = "cuts"

    def piece(self, pos, avail, n):
        for c in self.cuts:
            if c > pos:
                return max(1, min(avail, n, c - pos))
        return min(avail, n)

    def eintr(self, pos):
        if self.eintr_at.get(pos, 0) > 0:
            self.eintr_at[pos] -= 1
            return True
        return False


class RandomCuts(Whole):
    def __init__(self, rng, p_small=0.5, p_eintr=0.05):
        self.rng = rng
        self.p_small = p_small
        self.p_eintr = p_eintr
        self.name = "random"

    def piece(self, pos, avail, n):
        m = min(avail, n)
        r = self.rng.random()
        if r < self.p_small:
            return self.rng.randint(1, min(m, 6))
        if r < 0.8:
            return self.rng.randint(1, m)
        return m

    def eintr(self, pos):
        return self.rng.random() < self.p_eintr


class _Ctx(threading.local):
    call = None      # id of the public call in progress on this thread
    last = 0
    seq = 0          # socket-call counter within that call


class FakeNet:
    AF_UNSPEC = 0
    AF_UNIX = 1
    AF_INET = 2
    AF_INET6 = 10
    SOCK_STREAM = 1
    IPPROTO_TCP = 6
    TCP_NODELAY = 1
    SOL_SOCKET = _real_socket.SOL_SOCKET
    SO_KEEPALIVE = _real_socket.SO_KEEPALIVE
    error = OSError
    timeout = TimeoutError
    gaierror = _real_socket.gaierror

    def __init__(self, seg=None):
        self.endpoints = {}     # sockaddr (normalised) -> RefServer-like (has .session(), .health)
        self.dns = {}           # (host, port:int) -> [(family, sockaddr)]
        self.socks = []
        self.alarms = []        # (kind, detail) -- monitor events a check may treat as violations
        self.events = []        # ("call", type, sockid, callid, idx)  chronological trace
        self.faults = {}        # (callid, idx) -> kind (str or tuple)
        self.fired = []         # faults that actually fired
        self.seg = seg or Whole()
        self.ctx = _Ctx()
        self.lock = threading.RLock()
        self.on_call = None     # optional hook(type, sock) -- scheduler yield point
        self.trace_enabled = True
        self.capture = None         # call id -> bytearray of everything delivered during that call (when a dict is installed)
        self.counts = {}
        self.clock = None       # optional VClock for contact timestamps
        self.contacts = []      # (time, sockaddr, ok) for every connect() attempt
        self.keep_sent = False
        self.gai_log = []       # (host, port, callid) of every getaddrinfo
        self.raised = []        # exception objects raised because a server is failing (identity matters to C13)
        self.sentlog = []       # (callid, sockid, bytes) when keep_sent
        self.sendinfo = {}      # (callid, idx) -> (replying commands, reply bytes) of that sendall
        self._owner_refs = []   # strong refs so ids are never reused

    # -- registry ------------------------------------------------------------
    def add_server(self, host, port, server=None, ips=None, families=None):
        """Register a TCP server reachable as host:port.  ips: list of addresses the name
        resolves to (default one IPv4 derived from the name)."""
        server = server or RefServer(name="%s:%s" % (host, port))
        ips = ips or [host if _looks_ip(host) else "10.0.0.%d" % (1 + len(self.endpoints) % 250)]
        res = []
        for i, ip in enumerate(ips):
            fam = (families[i] if families else (self.AF_INET6 if ":" in ip else self.AF_INET))
            sa = (ip, int(port), 0, 0) if fam == self.AF_INET6 else (ip, int(port))
            res.append((fam, sa))
            self.endpoints[sa] = server
            # resolving the literal address works too
            self.dns.setdefault((ip, int(port)), [(fam, sa)])
        self.dns[(host, int(port))] = res
        return server

    def add_unix(self, path, server=None):
        server = server or RefServer(name=path)
        self.endpoints[path] = server
        return server

    # -- call context (set by the driver, never by the client) -----------------
    def begin_call(self, callid):
        self.ctx.call = callid
        self.ctx.seq = 0
        for s in self.socks:
            s._pos = 0

    def end_call(self):
        self.ctx.call = None

    # -- fault / trace plumbing -------------------------------------------------
    def _step(self, typ, sock):
        """Called at the start of every socket call.  Returns the fault kind or None."""
        if self.on_call is not None:
            self.on_call(typ, sock)
        with self.lock:
            idx = self.ctx.seq
            self.ctx.seq = idx + 1
            self.ctx.last = idx
            call = self.ctx.call
            self.counts[typ] = self.counts.get(typ, 0) + 1
            if self.trace_enabled:
                self.events.append((typ, sock.sid if sock is not None else None, call, idx))
            kind = self.faults.pop((call, idx), None) if self.faults else None
            if kind is None and self.faults:
                kind = self.faults.pop((call, typ), None)     # "first <typ> of this call"
            if kind is not None:
                # reply faults are only meaningful on sendall; ordinary kinds only on their type
                k0 = kind[0] if isinstance(kind, tuple) else kind
                if k0 in BASE_EXC_KINDS or k0 in KINDS.get(typ, ()) or (
                        typ == T_SENDALL and (k0 in ("rline", "trunc") or k0 in BASE_EXC_DELIVERED)):
                    self.fired.append((call, idx, typ, kind))
                    if sock is not None:
                        sock.faulted = True
                        sock.fault_kind = kind
                        sock.fault_call = call
                    return kind
                return None
        return None

    def health_exc(self, kind):
        e = make_exc(kind)
        self.raised.append(e)
        return e

    def alarm(self, kind, detail):
        with self.lock:
            self.alarms.append((kind, detail))

    # -- socket module API ------------------------------------------------------
    def getaddrinfo(self, host, port, family=0, type=0, proto=0, flags=0):
        k = self._step(T_GAI, None)
        self.gai_log.append((host, port, self.ctx.call))
        if k:
            raise make_exc(k)
        try:
            p = int(port)
        except (TypeError, ValueError):
            raise self.gaierror(-8, "Servname not supported for ai_socktype")
        res = self.dns.get((host, p))
        if not res and isinstance(host, str):
            # host names are case-insensitive for a resolver
            low = host.lower()
            for (h_, p_), r_ in self.dns.items():
                if p_ == p and isinstance(h_, str) and h_.lower() == low:
                    res = r_
                    break
        if not res:
            raise self.gaierror(-2, "Name or service not known")
        return [(fam, self.SOCK_STREAM, self.IPPROTO_TCP, "", sa) for fam, sa in res]

    def socket(self, family=2, type=1, proto=0):
        k = self._step(T_SOCKET, None)
        if k:
            raise make_exc(k)
        owner = _find_owner()
        if owner is not None:
            # server health "nosocket": no socket can be created for any address of that server (the failure arrives
            # before connect(), inside the address loop of the client) - one failed contact per attempt
            for sa in self._owner_addrs(owner, family):
                if getattr(self.endpoints.get(sa), "health", "up") == "nosocket":
                    self.contacts.append((self.clock.now() if self.clock else None, sa, False, self.ctx.call))
                    raise self.health_exc("nosocket")
        with self.lock:
            s = FakeSocket(self, family, len(self.socks), owner)
            s.sock_type, s.sock_proto = type, proto
            self.socks.append(s)
            if owner is not None:
                self._owner_refs.append(owner)
                others = [o.sid for o in self.socks
                          if o is not s and o.owner is owner and not o.closed]
                if others:
                    self.alarm("TWO_OPEN_SOCKETS", "owner %s opens socket %d while %r still open"
                               % (_oname(owner), s.sid, others))
        return s

    def _owner_addrs(self, owner, family):
        """The socket addresses of ``family`` that the owner's configured server resolves to."""
        spec = getattr(owner, "server", None)
        if isinstance(spec, (str, bytes)):
            return [spec] if family == self.AF_UNIX else []
        try:
            host, port = spec
            port = int(port)
        except (TypeError, ValueError):
            return []
        res = self.dns.get((host, port))
        if not res and isinstance(host, str):
            low = host.lower()
            for (h_, p_), r_ in self.dns.items():
                if p_ == port and isinstance(h_, str) and h_.lower() == low:
                    res = r_
                    break
        return [sa for fam, sa in (res or []) if fam == family]

    # -- ledger queries -----------------------------------------------------------
    def open_sockets(self):
        return [s for s in self.socks if not s.closed]

    def leaked(self, owners_current=()):
        """Open sockets that no live owner references as its .sock (raw or TLS-wrapped)."""
        cur = set()
        for o in owners_current:
            so = getattr(o, "sock", None)
            if so is not None:
                cur.add(id(getattr(so, "raw", so)))
        return [s for s in self.socks if not s.closed and id(s) not in cur]


def _looks_ip(h):
    return h.replace(".", "").isdigit() or ":" in h


def _oname(o):
    return "%s@%x" % (type(o).__name__, id(o) & 0xFFFFFF)


def _find_owner():
    """The pymemcache Client instance on whose behalf a socket is being created: the nearest
    frame whose ``self`` is a pymemcache.client.base.Client (no private name is relied on)."""
    try:
        from pymemcache.client.base import Client
    except Exception:  # pragma: no cover
        return None
    f = sys._getframe(2)
    while f is not None:
        me = f.f_locals.get("self")
        if isinstance(me, Client):
            return me
        f = f.f_back
    return None


class FakeSocket:
    def __init__(self, net: FakeNet, family, sid, owner):
        self.net = net
        self.family = family
        self.sid = sid
        self.owner = owner
        self.closed = False
        self.close_count = 0
        self.connected = False
        self.peer_closed = False
        self.faulted = False        # a fault was injected on this socket
        self.fault_kind = None
        self.fault_call = None
        self.wrapped = False        # handed to a TLS context
        self.timeout = "unset"
        self.opts = []
        self.history = []           # (type, detail, timeout-in-force)
        self.rx = []                # [bytearray, tag]
        self.stalled = False        # planned stall: pending bytes are not deliverable now
        self.session = None
        self.server = None
        self.addr = None
        self._pos = 0               # bytes delivered since begin_call (delivery schedule position)
        self.eintr_left = 0
        self.created_call = net.ctx.call
        self.last_call = None       # last public call that did I/O here
        self.via_wrapper = False

    # -- helpers
    def _use(self, typ, detail=None):
        self.history.append((typ, detail, self.timeout, self.via_wrapper, self.net.ctx.call))
        if self.closed:
            self.net.alarm("USE_AFTER_CLOSE", "%s on closed socket %d" % (typ, self.sid))
        if self.wrapped and not self.via_wrapper and typ in (T_CONNECT, T_SENDALL, T_RECV, T_SETTIMEOUT):
            self.net.alarm("RAW_IO_AFTER_WRAP", "%s on raw socket %d after wrap_socket" % (typ, self.sid))

    def pending(self):
        return sum(len(b) for b, _ in self.rx)

    def pending_tags(self):
        return [t for b, t in self.rx if b]

    # -- socket API
    def setsockopt(self, level, opt, value):
        k = self.net._step(T_SETSOCKOPT, self)
        self._use(T_SETSOCKOPT, (level, opt, value))
        if k:
            raise make_exc(k)
        self.opts.append((level, opt, value))

    def settimeout(self, t):
        k = self.net._step(T_SETTIMEOUT, self)
        self._use(T_SETTIMEOUT, t)
        if k:
            raise make_exc(k)
        self.timeout = t

    def connect(self, addr):
        net = self.net
        k = net._step(T_CONNECT, self)
        self._use(T_CONNECT, addr)
        self.addr = addr
        key = tuple(addr) if isinstance(addr, (tuple, list)) else addr
        srv = net.endpoints.get(key)
        now = net.clock.now() if net.clock else None
        # like the kernel: the address must be of the socket's family, and memcached speaks over stream sockets
        fam = getattr(self, "family", None)
        shape_ok = ((fam == net.AF_UNIX and isinstance(addr, (str, bytes)))
                    or (fam == net.AF_INET and isinstance(addr, (tuple, list)) and len(addr) == 2)
                    or (fam == net.AF_INET6 and isinstance(addr, (tuple, list)) and len(addr) in (2, 4)))
        if not k and (not shape_ok or getattr(self, "sock_type", net.SOCK_STREAM) != net.SOCK_STREAM):
            net.contacts.append((now, key, False, net.ctx.call))
            raise OSError(errno.EAFNOSUPPORT, "Address family not supported by protocol (socket(%r, %r) connected to %r)"
                          % (fam, getattr(self, "sock_type", None), addr))
        if k:
            net.contacts.append((now, key, False, net.ctx.call))
            raise make_exc(k)
        health = getattr(srv, "health", "up") if srv is not None else "refused"
        self.connect_call = net.ctx.call
        if health in ("refused", "timeout"):
            net.contacts.append((now, key, False, net.ctx.call))
            self.faulted = True
            raise net.health_exc(health)
        net.contacts.append((now, key, True if health == "up" else False, net.ctx.call))
        self.server = srv
        self.session = srv.session()
        self.connected = True

    def sendall(self, data):
        net = self.net
        k = net._step(T_SENDALL, self)
        self._use(T_SENDALL, len(data))
        if self.closed or not self.connected:
            raise OSError(errno.EBADF, "Bad file descriptor")
        self.last_call = net.ctx.call
        if net.keep_sent:
            net.sentlog.append((net.ctx.call, self.sid, bytes(data)))
        if self.rx and any(t != net.ctx.call for b, t in self.rx if b):
            net.alarm("SEND_ON_DIRTY_SOCKET",
                      "call %r sends on socket %d that still holds reply bytes of call(s) %r"
                      % (net.ctx.call, self.sid, sorted({repr(t) for b, t in self.rx if b})))
        if k in BASE_EXC_KINDS:
            raise make_exc(k)
        if k in ("reset", "brokenpipe", "timeout"):
            raise make_exc(k)
        health = getattr(self.server, "health", "up")
        if self.connect_call != net.ctx.call and self.contact_call != net.ctx.call:
            # first exchange of this call on a connection established earlier: a contact as well
            self.contact_call = net.ctx.call
            net.contacts.append((net.clock.now() if net.clock else None, self.addr_key(), health == "up", net.ctx.call))
        if health == "reset_on_recv":
            # the peer takes the request and resets the connection when the reply is read (a crashed worker behind a proxy)
            self.faulted = True
            return None
        if health != "up":
            self.faulted = True
            raise net.health_exc("reset")
        if self.peer_closed or (self.session is not None and self.session.closed):
            if k == "timeout_delivered" or k in BASE_EXC_DELIVERED:
                raise make_exc(k)
            if isinstance(k, str) and k.endswith("_partial"):
                self.partial_send_failed = True
                raise make_exc(k)           # a fault recorded as fired is always delivered
            return None     # kernel accepts the bytes; the peer is gone
        if getattr(self, "partial_send_failed", False):
            # nobody can know how much of the previous buffer went out: writing on is writing into the middle of a command
            net.alarm("STALE_READ", "call %r writes %d more byte(s) on socket %d after a send that failed part-way (%r...): the "
                      "stream is out of step with the server from here on" % (net.ctx.call, len(data), self.sid, bytes(data[:24])))
        if isinstance(k, str) and k.endswith("_partial"):
            # only the first part of the request reaches the peer, then the error / interrupt is delivered
            self.partial_send_failed = True
            part = bytes(data)[: max(1, len(data) // 2)]
            replies = self.session.feed(part, net.ctx.call)
            self.rx.extend([bytearray(r), tag] for r, tag, cmd in replies)
            raise make_exc(k)
        replies = self.session.feed(bytes(data), net.ctx.call)
        segs = [[bytearray(r), tag] for r, tag, cmd in replies]
        net.sendinfo[(net.ctx.call, net.ctx.last)] = (len(segs), sum(len(x[0]) for x in segs))
        if isinstance(k, tuple) and k[0] == "rline":
            # replace the reply of the i-th replying command of this sendall by one line
            _, i, variant = k
            if i < len(segs):
                if variant == "foreign_item" and getattr(replies[i][2], "verb", b"") not in (b"get", b"gets", b"gat", b"gats"):
                    variant = "wrongkind_value"
                segs[i][0] = bytearray(REPLY_LINE_VARIANTS[variant])
                # a server that answered nonsense says nothing more for this command: a client that
                # keeps waiting for the rest of a reply runs into its I/O timeout (planned stall)
                self.stall_after = True
        self.rx.extend(segs)
        if isinstance(k, tuple) and k[0] == "trunc":
            _, b, then = k
            # keep only the first b bytes of what this sendall produced, then EOF or stall
            keep = b
            newsegs = []
            for seg in segs:
                if keep <= 0:
                    seg[0][:] = b""
                elif len(seg[0]) > keep:
                    del seg[0][keep:]
                    keep = 0
                else:
                    keep -= len(seg[0])
            self.trunc_effective = any(True for seg in segs) and (sum(len(x[0]) for x in segs) < net.sendinfo[(net.ctx.call, net.ctx.last)][1])
            if then == "eof":
                self.peer_closed = True
            else:
                self.stall_after = True
        if self.session.closed:
            self.peer_closed = True
        if k == "timeout_delivered" or k in BASE_EXC_DELIVERED:
            raise make_exc(k)
        return None

    stall_after = False
    connect_call = None
    contact_call = None

    def addr_key(self):
        a = self.addr
        return tuple(a) if isinstance(a, (tuple, list)) else a
    trunc_effective = False

    def recv(self, n):
        net = self.net
        k = net._step(T_RECV, self)
        self._use(T_RECV, n)
        if self.closed or not self.connected:
            raise OSError(errno.EBADF, "Bad file descriptor")
        self.last_call = net.ctx.call
        if k in BASE_EXC_KINDS:
            raise make_exc(k)
        if k == "timeout":
            raise make_exc("timeout")       # server stalls; pending bytes (if any) arrive later
        if k == "eagain" or getattr(self, "_eagain_reads", 0):
            # a receive time-out surfacing as EAGAIN: the peer is silent and stays silent, every further read says so again
            self.rx.clear()
            self.stall_after = True
            self._eagain_reads = getattr(self, "_eagain_reads", 0) + 1
            if self._eagain_reads > 60:
                net.alarm("BLOCKED_RECV", "call %r keeps re-reading socket %d after %d EAGAIN results: it would wait for ever"
                          % (net.ctx.call, self.sid, self._eagain_reads))
                raise TimeoutError("timed out (reader retries EAGAIN for ever)")
            raise make_exc("eagain")
        if k == "reset":
            self.rx.clear()
            self.peer_closed = True
            raise make_exc("reset")
        if k == "eof":
            self.rx.clear()
            self.peer_closed = True
            return b""
        if k == "eintr1":
            self.eintr_left = 0
            raise InterruptedError(errno.EINTR, "Interrupted system call (injected)")
        if k == "eintr3":
            self.eintr_left = 2
            raise InterruptedError(errno.EINTR, "Interrupted system call (injected)")
        if self.eintr_left > 0:
            self.eintr_left -= 1
            raise InterruptedError(errno.EINTR, "Interrupted system call (injected)")
        if getattr(self.server, "health", "up") != "up":
            self.faulted = True
            self.rx.clear()
            raise net.health_exc("reset")
        if n < 0:
            raise ValueError("negative buffersize in recv")
        if n == 0:
            return b""          # like the kernel: a zero-length read returns at once with nothing
        avail = self.pending()
        if avail == 0:
            if self.peer_closed:
                # end of stream is reported once per read; a reader that keeps calling recv() on it never terminates
                if getattr(self, "_eof_call", None) != net.ctx.call:
                    self._eof_call, self._eof_reads = net.ctx.call, 0
                self._eof_reads += 1
                if self._eof_reads > 100:
                    net.alarm("BLOCKED_RECV", "call %r keeps reading socket %d after end-of-stream (%d empty reads): it would spin for ever"
                              % (net.ctx.call, self.sid, self._eof_reads))
                    raise TimeoutError("timed out (reader spins on end-of-stream)")
                return b""
            if self.stall_after:
                raise TimeoutError("timed out (planned stall after truncated reply)")
            net.alarm("BLOCKED_RECV",
                      "call %r waits on socket %d for a reply that will never come" % (net.ctx.call, self.sid))
            raise TimeoutError("timed out (nothing will ever arrive)")
        if net.seg.eintr(self._pos):
            raise InterruptedError(errno.EINTR, "Interrupted system call (schedule)")
        want = net.seg.piece(self._pos, avail, n)
        want = max(1, min(want, avail, n))
        out = bytearray()
        cur = net.ctx.call
        while want > 0 and self.rx:
            seg, tag = self.rx[0]
            if not seg:
                self.rx.pop(0)
                continue
            take = seg[:want]
            del seg[:len(take)]
            out += take
            want -= len(take)
            if tag != cur:
                net.alarm("STALE_READ", "call %r read %d byte(s) that answer call %r on socket %d: %r"
                          % (cur, len(take), tag, self.sid, bytes(take[:24])))
            if not seg:
                self.rx.pop(0)
        self._pos += len(out)
        if net.capture is not None:
            net.capture.setdefault(cur, bytearray()).extend(out)
        net.counts["bytes_delivered"] = net.counts.get("bytes_delivered", 0) + len(out)
        net.counts["pieces"] = net.counts.get("pieces", 0) + 1
        return bytes(out)

    def close(self):
        k = self.net._step(T_CLOSE, self)
        if k in BASE_EXC_KINDS:
            # a signal / gevent timeout delivered on entry: the descriptor has not been closed yet
            self.history.append(("close-interrupted", None, self.timeout, self.via_wrapper, self.net.ctx.call))
            raise make_exc(k)
        self.history.append((T_CLOSE, None, self.timeout, self.via_wrapper, self.net.ctx.call))
        self.close_count += 1
        self.closed = True
        if k:
            raise make_exc(k)

    def fileno(self):
        return 1000 + self.sid

    def __repr__(self):
        return "<FakeSocket %d %s>" % (self.sid, "closed" if self.closed else "open")


class FakeTLSContext:
    """Stands in for ssl.SSLContext (truthy; wrap_socket only)."""

    def __init__(self, net):
        self.net = net
        self.wrapped = []

    def wrap_socket(self, sock, server_hostname=None, **kw):
        k = self.net._step(T_WRAP, sock)
        if k:
            raise make_exc(k)
        sock.wrapped = True
        w = TLSSocket(sock, server_hostname)
        self.wrapped.append(w)
        return w


class TLSSocket:
    """The wrapper the client must use after wrap_socket; delegates to the raw FakeSocket while
    marking the access as coming through the wrapper."""

    def __init__(self, raw, hostname):
        self.raw = raw
        self.server_hostname = hostname

    def _via(self, name, *a):
        self.raw.via_wrapper = True
        try:
            return getattr(self.raw, name)(*a)
        finally:
            self.raw.via_wrapper = False

    def setsockopt(self, *a):
        return self._via("setsockopt", *a)

    def settimeout(self, t):
        return self._via("settimeout", t)

    def connect(self, addr):
        return self._via("connect", addr)

    def sendall(self, d):
        return self._via("sendall", d)

    def recv(self, n):
        return self._via("recv", n)

    def close(self):
        return self._via("close")

    def unwrap(self):
        """orderly TLS shutdown (ssl.SSLSocket.unwrap): needs a live connection - on a broken one it fails like the real thing"""
        raw = self.raw
        broken = raw.closed or not raw.connected or raw.peer_closed or raw.faulted or raw.fault_kind is not None
        k = raw.net._step(T_UNWRAP, raw)          # a socket call like the others: faults and interrupts can arrive here
        if k in BASE_EXC_KINDS:
            raise make_exc(k)
        if k or broken:
            raise OSError(errno.ENOTCONN, "TLS shutdown on a broken connection (fake)")
        return raw
