"""Operation catalogue shared by the history-based checks (C01, C06, C07, C09, C10).

Prefill (on every server): h1,h2,h3 present with unique values, num numeric, txt text;
m1,m2 absent.  Every stored value carries a unique id so a wrong reply is visible."""

PREFILL = {
    b"h1": (b"value-of-h1", 0), b"h2": (b"value-of-h2-xx", 0), b"h3": (b"v3", 0),
    b"num": (b"10", 0), b"txt": (b"abc", 0),
}


def prefill_for(prefix=b""):
    return {prefix + k: v for k, v in PREFILL.items()}


def ops_catalogue():
    """-> list of (label, op) ; op = (method, args, kwargs)"""
    ops = []

    def add(label, name, *args, **kw):
        ops.append((label, (name, tuple(args), dict(kw))))

    for nr in (False, True):
        t = "nr" if nr else "reply"
        add("set-" + t, "set", "k-set", b"new-set-value", noreply=nr)
        add("set-exp-" + t, "set", "h1", b"overwrite", 5, noreply=nr)
        add("add-miss-" + t, "add", "m1", b"added", noreply=nr)
        add("add-hit-" + t, "add", "h1", b"added", noreply=nr)
        add("replace-hit-" + t, "replace", "h1", b"repl", noreply=nr)
        add("replace-miss-" + t, "replace", "m1", b"repl", noreply=nr)
        add("append-" + t, "append", "h1", b"+app", noreply=nr)
        add("prepend-" + t, "prepend", "h1", b"pre+", noreply=nr)
        add("cas-exists-" + t, "cas", "h1", b"casval", b"999999", noreply=nr)
        add("cas-miss-" + t, "cas", "m1", b"casval", 1, noreply=nr)
        add("set_many1-" + t, "set_many", {"sm1": b"sm-1"}, noreply=nr)
        add("set_many3-" + t, "set_many", {"sm1": b"sm-1", "sm2": b"sm-22", "sm3": b"sm-333"}, noreply=nr)
        add("delete-hit-" + t, "delete", "h1", noreply=nr)
        add("delete-miss-" + t, "delete", "m1", noreply=nr)
        add("delete_many1-" + t, "delete_many", ["h1"], noreply=nr)
        add("delete_many3-" + t, "delete_many", ["h1", "m1", "h2"], noreply=nr)
        add("incr-hit-" + t, "incr", "num", 5, noreply=nr)
        add("incr-miss-" + t, "incr", "m1", 5, noreply=nr)
        add("incr-nonnum-" + t, "incr", "txt", 5, noreply=nr)
        add("decr-hit-" + t, "decr", "num", 3, noreply=nr)
        add("touch-hit-" + t, "touch", "h1", 30, noreply=nr)
        add("touch-miss-" + t, "touch", "m1", 30, noreply=nr)
        add("flush_all-" + t, "flush_all", noreply=nr)
    add("set-default", "set", "k-set", b"dflt")
    add("delete-default", "delete", "h1")
    add("touch-default", "touch", "h1", 10)
    add("set_many-default", "set_many", {"sm1": b"1", "sm2": b"2"})
    add("get-hit", "get", "h1")
    add("get-miss", "get", "m1")
    add("gets-hit", "gets", "h2")
    add("gets-miss", "gets", "m2")
    add("gat-hit", "gat", "h1", 30)
    add("gat-miss", "gat", "m1", 30)
    add("gats-hit", "gats", "h1", 30)
    add("gats-miss", "gats", "m1", 30)
    add("get_many0", "get_many", [])
    add("get_many1", "get_many", ["h1"])
    add("get_many-mixed", "get_many", ["h1", "m1", "h2", "h3"])
    add("get_many-allmiss", "get_many", ["m1", "m2"])
    add("gets_many-mixed", "gets_many", ["h3", "m1", "h1"])
    add("version", "version")
    add("stats", "stats")
    add("stats-settings", "stats", "settings")
    add("cache_memlimit", "cache_memlimit", 64)
    add("raw-version", "raw_command", "version")
    add("raw-get", "raw_command", b"get h1", b"END\r\n")
    add("quit", "quit")
    add("shutdown", "shutdown")
    add("shutdown-graceful", "shutdown", True)
    add("stats-detail-dump", "stats", "detail", "dump")
    add("stats-detail-on", "stats", "detail", "on")
    add("stats-reset", "stats", "reset")
    # noreply passed explicitly as None (what wrappers that forward an optional argument do)
    add("incr-noreply-none", "incr", "num", 5, noreply=None)
    add("decr-noreply-none", "decr", "num", 3, noreply=None)
    add("delete-noreply-none", "delete", "h1", noreply=None)
    add("touch-noreply-none", "touch", "h1", 30, noreply=None)
    add("set-noreply-none", "set", "k-set", b"v", noreply=None)
    add("delete_many-noreply-none", "delete_many", ["h1", "m1"], noreply=None)
    add("flush_all-noreply-none", "flush_all", noreply=None)
    # the str and the bytes spelling of one key in the same batch (two items, one wire key)
    add("set_many-str-and-bytes-reply", "set_many", {"sm1": b"as-str", b"sm1": b"as-bytes"}, noreply=False)
    add("set_many-str-and-bytes-nr", "set_many", {"sm1": b"as-str", b"sm1": b"as-bytes", "sm2": b"x"}, noreply=True)
    add("get_many-str-and-bytes", "get_many", ["h1", b"h1", "h2"])
    add("delete_many-str-and-bytes", "delete_many", ["h1", b"h1"], noreply=False)
    add("getitem-hit", "__getitem__", "h1")
    add("getitem-miss", "__getitem__", "m1")
    add("setitem", "__setitem__", "k-item", b"item-value")
    add("delitem", "__delitem__", "h1")
    return ops


PROBES = [
    ("probe-add", ("add", ("probe-key", b"probe-value"), {"noreply": False})),
    ("probe-get", ("get", ("h2",), {})),
    ("probe-get_many", ("get_many", (["h3", "m2", "h2"],), {})),
    ("probe-incr", ("incr", ("num", 1), {"noreply": False})),
]


def supports(stack, method):
    if stack in ("hash", "hashpooled"):
        return method not in ("version", "cache_memlimit", "raw_command", "shutdown",
                              "__getitem__", "__setitem__", "__delitem__")
    if stack == "pooled":
        return method not in ("cache_memlimit",)
    return True
