"""Independent references: MurmurHash3_x86_32 (bytes-oriented, written from the
published algorithm), the rendezvous rule, and the key-legality predicate."""
import os
import struct
import subprocess

M32 = 0xFFFFFFFF


def _rotl(x, r):
    return ((x << r) | (x >> (32 - r))) & M32


def murmur3_bytes(data: bytes, seed: int = 0) -> int:
    h = seed & M32
    n = len(data)
    nblocks = n // 4
    for (k,) in struct.iter_unpack("<I", data[: nblocks * 4]):
        k = (k * 0xCC9E2D51) & M32
        k = _rotl(k, 15)
        k = (k * 0x1B873593) & M32
        h ^= k
        h = _rotl(h, 13)
        h = (h * 5 + 0xE6546B64) & M32
    tail = data[nblocks * 4:]
    k = 0
    if len(tail) == 3:
        k ^= tail[2] << 16
    if len(tail) >= 2:
        k ^= tail[1] << 8
    if len(tail) >= 1:
        k ^= tail[0]
        k = (k * 0xCC9E2D51) & M32
        k = _rotl(k, 15)
        k = (k * 0x1B873593) & M32
        h ^= k
    h ^= n
    h ^= h >> 16
    h = (h * 0x85EBCA6B) & M32
    h ^= h >> 13
    h = (h * 0xC2B2AE35) & M32
    h ^= h >> 16
    return h


def murmur3_mod256(s: str, seed: int = 0) -> int:
    """What the pinned release computes for *any* str: only the low 8 bits of every code point reach the low 32 bits of
    the state (masks / shifts beyond bit 31 are dropped by the final & 0xFFFFFFFF).  Used as the release-stability
    reference for strings outside Latin-1 (C14: 'placement ... does not change between releases')."""
    return murmur3_bytes(bytes(ord(ch) & 0xFF for ch in s), seed)


def murmur3_latin1(s: str, seed: int = 0) -> int:
    """The library's function takes a str of code points; for 0..255 those are bytes."""
    return murmur3_bytes(s.encode("latin-1"), seed)


# (data, seed, expected) -- published MurmurHash3_x86_32 vectors
VECTORS = [
    (b"", 0, 0x00000000),
    (b"", 1, 0x514E28B7),
    (b"", 0xFFFFFFFF, 0x81F16F39),
    (b"\xff\xff\xff\xff", 0, 0x76293B50),
    (b"\x21\x43\x65\x87", 0, 0xF55B516B),
    (b"\x21\x43\x65\x87", 0x5082EDEE, 0x2362F9DE),
    (b"\x21\x43\x65", 0, 0x7E4A8634),
    (b"\x21\x43", 0, 0xA0F7B07A),
    (b"\x21", 0, 0x72661CF4),
    (b"\x00\x00\x00\x00", 0, 0x2362F9DE),
    (b"\x00\x00\x00", 0, 0x85F0B427),
    (b"\x00\x00", 0, 0x30F4C306),
    (b"\x00", 0, 0x514E28B7),
    (b"abc", 0, 0xB3DD93FA),
    (b"Hello, world!", 0x9747B28C, 0x24884CBA),
    (b"The quick brown fox jumps over the lazy dog", 0x9747B28C, 0x2FA826CD),
    (b"aaaa", 0x9747B28C, 0x5A97808A),
]


class CRef:
    """The ASan/UBSan-instrumented C transcription behind a pipe (batch mode)."""

    def __init__(self):
        here = os.path.dirname(os.path.dirname(os.path.abspath(__file__)))
        self.path = os.path.join(here, "ref", "murmur3_ref")
        self.src = os.path.join(here, "ref", "murmur3_ref.c")
        self.available = self._build()

    def _build(self):
        try:
            if (not os.path.exists(self.path)
                    or os.path.getmtime(self.path) < os.path.getmtime(self.src)):
                subprocess.run(
                    ["clang", "-O1", "-g", "-fsanitize=address,undefined",
                     "-fno-sanitize-recover=all", "-o", self.path, self.src],
                    check=True, timeout=120, stdout=subprocess.DEVNULL, stderr=subprocess.DEVNULL)
            return os.path.exists(self.path)
        except Exception:
            return False

    def batch(self, items):
        """items: list of (bytes, seed) -> list of ints; raises if the sanitizer fires."""
        inp = "".join("%d %s\n" % (seed & M32, data.hex() or "-") for data, seed in items)
        env = dict(os.environ, ASAN_OPTIONS="abort_on_error=1:halt_on_error=1:detect_leaks=0",
                   UBSAN_OPTIONS="halt_on_error=1:abort_on_error=1")
        p = subprocess.run([self.path], input=inp.encode(), stdout=subprocess.PIPE,
                           stderr=subprocess.PIPE, timeout=600, env=env)
        if p.returncode != 0:
            raise RuntimeError("C reference failed (sanitizer?): rc=%s %s"
                               % (p.returncode, p.stderr[-500:]))
        out = [int(x) for x in p.stdout.split()]
        if len(out) != len(items):
            raise RuntimeError("C reference returned %d lines for %d items" % (len(out), len(items)))
        return out


def rendezvous_ref(nodes, key, hashfn=None, seed=0):
    """Published rule: highest score of '<node>-<key>', ties to the greatest node name.
    Independent of node order by construction."""
    if not nodes:
        return None
    if hashfn is None:
        def hashfn(s, seed=seed):
            return murmur3_mod256(s, seed)
    best = None
    for node in nodes:
        sc = hashfn("%s-%s" % (node, key), seed)
        if sc is None:
            return NotImplemented      # non-Latin-1: reference does not define the value
        cand = (sc, str(node))
        if best is None or cand > best[0]:
            best = (cand, node)
    return best[1]


ILLEGAL_KEY_BYTES = frozenset(b"\x00\x09\x0a\x0b\x0c\x0d\x20")


def key_legal(key, allow_unicode, prefix=b""):
    """Independent legality predicate (C20/C02). Returns (legal, wire_key or None)."""
    if isinstance(key, str):
        try:
            enc = key.encode("utf8" if allow_unicode else "ascii")
        except UnicodeEncodeError:
            return False, None
    elif isinstance(key, bytes):
        enc = key
    else:
        return False, None
    wire = prefix + enc
    if len(wire) > 250:
        return False, None
    if any(b in ILLEGAL_KEY_BYTES for b in wire):
        return False, None
    return True, wire
