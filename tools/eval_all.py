"""Evaluate seeded changes: for every seeded/<dir>/meta.json (or own/*.diff listed in own/index.json) apply, run the quick
checks named there, restore.  Writes seeded/RESULTS.md.  Usage: python3 tools/eval_all.py [--only substr]"""
import json, os, re, subprocess, sys, glob
HERE = os.path.dirname(os.path.dirname(os.path.abspath(__file__)))
only = sys.argv[sys.argv.index("--only") + 1] if "--only" in sys.argv else None
rows = []
def run(patch, checks, reverse=False):
    cmd = [os.path.join(HERE, "tools", "eval_patch.sh")] + (["-R"] if reverse else []) + [patch] + checks
    p = subprocess.run(cmd, stdout=subprocess.PIPE, stderr=subprocess.STDOUT, text=True, errors="replace", timeout=3600)
    return p.stdout.strip().splitlines()
entries = []
for meta in sorted(glob.glob(os.path.join(HERE, "seeded", "*", "meta.json"))):
    d = json.load(open(meta))
    base = os.path.dirname(meta)
    entries.append((os.path.basename(base), os.path.join(base, d.get("patch", "patch.diff")), d["checks"], d.get("reverse", False), d.get("summary", "")))
idx = os.path.join(HERE, "seeded", "own", "index.json")
if os.path.exists(idx):
    for e in json.load(open(idx)):
        entries.append(("own/" + e["patch"], os.path.join(HERE, "seeded", "own", e["patch"]) if not e["patch"].startswith("../") else os.path.normpath(os.path.join(HERE, "seeded", "own", e["patch"])), e["checks"], e.get("reverse", False), e.get("summary", "")))
for name, patch, checks, rev, summary in entries:
    if only and not re.search(only, name):
        continue
    out = run(patch, checks, rev)
    caught = [l for l in out if " rc=1 " in l]
    mp = os.path.join(HERE, "seeded", name, "meta.json")
    if os.path.exists(mp):
        m = json.load(open(mp))
        m["caught_by"] = [l.split()[0] for l in caught]
        m["not_caught_by"] = [l.split()[0] for l in out if " rc=0 " in l or " rc=2 " in l]
        json.dump(m, open(mp, "w"), indent=1)
    rows.append((name, summary, checks, out, bool(caught)))
    print(name, "CAUGHT" if caught else "MISSED", "|", "; ".join(out)[:300], flush=True)
with open(os.path.join(HERE, "seeded", "RESULTS.md"), "a") as f:
    for name, summary, checks, out, caught in rows:
        f.write("| %s | %s | %s | %s |\n" % (name, summary.replace("|", "/"), "caught" if caught else "MISSED", "<br>".join(o.replace("|", "/")[:220] for o in out)))
