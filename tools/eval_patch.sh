#!/bin/bash
# tools/eval_patch.sh [-R] <patch> <check ids...>   -> one line per check: id rc nviol firstkey
# Applies the patch (reversed with -R) to the repository under test, runs the quick checks without touching the
# committed evidence, ALWAYS restores the tree.  EVAL_REPO selects a scratch worktree instead of /repo (used while
# background sweeps are reading /repo).
rev=""
if [ "$1" = "-R" ]; then rev="-R"; shift; fi
patch="$(realpath "$1")"; shift
R="${EVAL_REPO:-/repo}"
cd "$R" || exit 3
if ! git apply $rev --check "$patch" 2>/dev/null; then echo "PATCH-DOES-NOT-APPLY $patch"; exit 3; fi
git apply $rev "$patch"
trap 'cd "$R" && git checkout -- . ' EXIT
cd /verif
for id in "$@"; do
  out=$(VERIF_REPO="$R" VERIF_NO_EVIDENCE=1 ./check "$id" "${TIER:-quick}" 2>&1); rc=$?
  n=$(echo "$out" | grep -c '^VIOLATION')
  first=$(echo "$out" | grep -A1 '^VIOLATION' | sed -n 2p | cut -c1-160)
  echo "$id rc=$rc violations=$n $first"
done
