#!/bin/bash
# tools/eval_patch.sh [-R] <patch> <check ids...>   -> one line per check: id rc nviol firstkey
# Applies the patch to /repo (reversed with -R), runs the quick checks, ALWAYS restores /repo.
rev=""
if [ "$1" = "-R" ]; then rev="-R"; shift; fi
patch="$1"; shift
cd /repo || exit 3
if ! git apply $rev --check "$patch" 2>/dev/null; then echo "PATCH-DOES-NOT-APPLY $patch"; exit 3; fi
git apply $rev "$patch"
trap 'cd /repo && git checkout -- . ' EXIT
cd /verif
for id in "$@"; do
  out=$(VERIF_NO_EVIDENCE=1 ./check "$id" "${TIER:-quick}" 2>&1); rc=$?
  n=$(echo "$out" | grep -c '^VIOLATION')
  first=$(echo "$out" | grep -A1 '^VIOLATION' | sed -n 2p | cut -c1-160)
  echo "$id rc=$rc violations=$n $first"
done
