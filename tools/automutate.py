"""Systematic first-order mutants of the library source, to find what the checks do NOT notice.

  phase 1:  python3 tools/automutate.py gen  [--max N] [--seed S]     -> /tmp/automut/mutants.json (sites), survivors of the
            pinned unit suite in /tmp/automut/survivors.json (a mutant the suite kills is not interesting: the task is about
            changes that still pass the tests)
  phase 2:  python3 tools/automutate.py run  [--max N]                 -> runs the quick checks relevant to the mutated file
            against each survivor (scratch worktrees, VERIF_NO_EVIDENCE=1), stops at the first check that reports a
            violation; writes /tmp/automut/results.json and prints the survivors of both (equivalent mutants or gaps).

Nothing is ever written to /repo; worktrees live under /tmp/automut_w<i> and are removed at the end."""
import ast
import copy
import json
import os
import random
import subprocess
import sys
import concurrent.futures as cf

HERE = os.path.dirname(os.path.dirname(os.path.abspath(__file__)))
REPO = "/repo"
PY = "/venv/bin/python"
OUT = "/tmp/automut"
FILES = ["pymemcache/client/base.py", "pymemcache/client/hash.py", "pymemcache/pool.py", "pymemcache/serde.py",
         "pymemcache/client/murmur3.py", "pymemcache/client/rendezvous.py", "pymemcache/client/retrying.py",
         "pymemcache/fallback.py", "pymemcache/client/ext/aws_ec_client.py"]
CHECKS = {
    "pymemcache/client/base.py": ["C05", "C16", "C02", "C01", "C06", "C07", "C03", "C04", "C09", "C10", "C20", "C12", "C19", "C08"],
    "pymemcache/client/hash.py": ["C12", "C13", "C07", "C16", "C11", "C20", "C19", "C10", "C01"],
    "pymemcache/pool.py": ["C09", "C16", "C10", "C08"],
    "pymemcache/serde.py": ["C15", "C04", "C07"],
    "pymemcache/client/murmur3.py": ["C14", "C11"],
    "pymemcache/client/rendezvous.py": ["C11", "C12", "C14"],
    "pymemcache/client/retrying.py": ["C17", "C16"],
    "pymemcache/fallback.py": ["C18"],
    "pymemcache/client/ext/aws_ec_client.py": ["C19"],
}

CMP = {ast.Eq: ast.NotEq, ast.NotEq: ast.Eq, ast.Lt: ast.LtE, ast.LtE: ast.Lt, ast.Gt: ast.GtE, ast.GtE: ast.Gt,
       ast.Is: ast.IsNot, ast.IsNot: ast.Is, ast.In: ast.NotIn, ast.NotIn: ast.In}
BIN = {ast.Add: ast.Sub, ast.Sub: ast.Add, ast.Mult: ast.FloorDiv, ast.FloorDiv: ast.Mult, ast.Mod: ast.Mult,
       ast.BitAnd: ast.BitOr, ast.BitOr: ast.BitAnd, ast.LShift: ast.RShift, ast.RShift: ast.LShift, ast.BitXor: ast.BitAnd}


class Sites(ast.NodeVisitor):
    """Enumerates mutation sites in a deterministic order; with target=k applies the k-th mutation in place."""

    def __init__(self, target=None):
        self.n = 0
        self.target = target
        self.sites = []
        self.func = []
        self.applied = None

    def site(self, node, desc):
        k = self.n
        self.n += 1
        if self.target is None:
            self.sites.append({"k": k, "line": getattr(node, "lineno", 0), "func": ".".join(self.func), "op": desc})
            return False
        if k == self.target:
            self.applied = desc
            return True
        return False

    def visit_FunctionDef(self, node):
        self.func.append(node.name)
        # skip docstring-only effects; visit body
        self.generic_visit(node)
        self.func.pop()

    visit_AsyncFunctionDef = visit_FunctionDef

    def visit_ClassDef(self, node):
        self.func.append(node.name)
        self.generic_visit(node)
        self.func.pop()

    def generic_visit(self, node):
        # statement-level mutations on bodies
        for field in ("body", "orelse", "finalbody"):
            stmts = getattr(node, field, None)
            if isinstance(stmts, list) and stmts and isinstance(stmts[0], ast.stmt):
                for i, st in enumerate(stmts):
                    if isinstance(st, ast.Expr) and isinstance(st.value, ast.Constant) and isinstance(st.value.value, str):
                        continue        # docstring
                    if isinstance(st, ast.Expr) and isinstance(st.value, (ast.Call, ast.Await)):
                        if self.site(st, "delete call statement: %s" % ast.unparse(st)[:60]):
                            stmts[i] = ast.copy_location(ast.Pass(), st)
                    elif isinstance(st, (ast.Assign, ast.AugAssign)) and self.func:
                        if self.site(st, "delete assignment: %s" % ast.unparse(st)[:60]):
                            stmts[i] = ast.copy_location(ast.Pass(), st)
                    elif isinstance(st, ast.Raise) and st.exc is not None:
                        if self.site(st, "delete raise: %s" % ast.unparse(st)[:60]):
                            stmts[i] = ast.copy_location(ast.Pass(), st)
                    elif isinstance(st, ast.Return) and st.value is not None and not (
                            isinstance(st.value, ast.Constant) and st.value.value is None):
                        if self.site(st, "return None instead of: %s" % ast.unparse(st)[:60]):
                            st.value = ast.Constant(None)
                    elif isinstance(st, ast.Break):
                        if self.site(st, "break -> continue"):
                            stmts[i] = ast.copy_location(ast.Continue(), st)
                    elif isinstance(st, ast.Continue):
                        if self.site(st, "continue -> break"):
                            stmts[i] = ast.copy_location(ast.Break(), st)
        super().generic_visit(node)

    def visit_Compare(self, node):
        for i, op in enumerate(node.ops):
            if type(op) in CMP:
                if self.site(node, "%s -> %s in: %s" % (type(op).__name__, CMP[type(op)].__name__, ast.unparse(node)[:60])):
                    node.ops[i] = CMP[type(op)]()
        self.generic_visit(node)

    def visit_BoolOp(self, node):
        if self.site(node, "%s -> %s in: %s" % (type(node.op).__name__, "Or" if isinstance(node.op, ast.And) else "And",
                                                ast.unparse(node)[:60])):
            node.op = ast.Or() if isinstance(node.op, ast.And) else ast.And()
        self.generic_visit(node)

    def visit_UnaryOp(self, node):
        if isinstance(node.op, ast.Not):
            if self.site(node, "drop 'not' in: %s" % ast.unparse(node)[:60]):
                node.operand = ast.UnaryOp(ast.Not(), node.operand)
        self.generic_visit(node)

    def visit_BinOp(self, node):
        if type(node.op) in BIN and not (isinstance(node.op, ast.Mod) and isinstance(node.left, ast.Constant)
                                         and isinstance(node.left.value, (str, bytes))):
            if self.site(node, "%s -> %s in: %s" % (type(node.op).__name__, BIN[type(node.op)].__name__, ast.unparse(node)[:60])):
                node.op = BIN[type(node.op)]()
        self.generic_visit(node)

    def visit_If(self, node):
        if self.site(node, "negate if: %s" % ast.unparse(node.test)[:60]):
            node.test = ast.UnaryOp(ast.Not(), node.test)
        self.generic_visit(node)

    def visit_While(self, node):
        if not (isinstance(node.test, ast.Constant)):
            if self.site(node, "negate while: %s" % ast.unparse(node.test)[:60]):
                node.test = ast.UnaryOp(ast.Not(), node.test)
        self.generic_visit(node)

    def visit_Constant(self, node):
        v = node.value
        if isinstance(v, bool):
            if self.site(node, "%r -> %r" % (v, not v)):
                node.value = not v
        elif isinstance(v, int) and self.func:
            if self.site(node, "%r -> %r" % (v, v + 1)):
                node.value = v + 1
            if v > 0 and self.site(node, "%r -> %r" % (v, v - 1)):
                node.value = v - 1
        elif isinstance(v, bytes) and self.func and 0 < len(v) <= 12:
            if self.site(node, "%r -> %r" % (v, v[:-1])):
                node.value = v[:-1]
            if self.site(node, "%r -> %r" % (v, v + b" ")):
                node.value = v + b" "

    def visit_ExceptHandler(self, node):
        if node.type is not None and isinstance(node.type, ast.Name) and node.type.id == "Exception":
            if self.site(node, "except Exception -> except OSError"):
                node.type = ast.Name("OSError", ast.Load())
        elif node.type is not None and isinstance(node.type, ast.Name) and node.type.id == "BaseException":
            if self.site(node, "except BaseException -> except Exception"):
                node.type = ast.Name("Exception", ast.Load())
        self.generic_visit(node)

    def visit_Call(self, node):
        # drop a keyword argument / swap two positional arguments
        for i, kw in enumerate(list(node.keywords)):
            if kw.arg is not None and self.site(node, "drop keyword %s= in: %s" % (kw.arg, ast.unparse(node)[:60])):
                node.keywords.pop(i)
                break
        if len(node.args) >= 2 and not any(isinstance(a, ast.Starred) for a in node.args):
            if self.site(node, "swap first two arguments in: %s" % ast.unparse(node)[:60]):
                node.args[0], node.args[1] = node.args[1], node.args[0]
        self.generic_visit(node)


def list_sites(path):
    src = open(os.path.join(REPO, path)).read()
    tree = ast.parse(src)
    s = Sites()
    s.visit(tree)
    for x in s.sites:
        x["file"] = path
    return s.sites


def mutated_source(path, k):
    src = open(os.path.join(REPO, path)).read()
    tree = ast.parse(src)
    s = Sites(target=k)
    s.visit(tree)
    ast.fix_missing_locations(tree)
    return ast.unparse(tree) + "\n", s.applied


def worktree(i):
    wt = "/tmp/automut_w%d" % i
    if not os.path.isdir(wt):
        subprocess.run(["git", "-C", REPO, "worktree", "add", "--detach", wt, "HEAD"], stdout=subprocess.DEVNULL,
                       stderr=subprocess.DEVNULL, check=True)
    subprocess.run(["git", "-C", wt, "checkout", "--", "."], stdout=subprocess.DEVNULL, stderr=subprocess.DEVNULL)
    return wt


def remove_worktrees():
    for i in range(64):
        wt = "/tmp/automut_w%d" % i
        if os.path.isdir(wt):
            subprocess.run(["git", "-C", REPO, "worktree", "remove", "--force", wt], stdout=subprocess.DEVNULL, stderr=subprocess.DEVNULL)


def suite_survives(args):
    m, slot = args
    wt = worktree(slot)
    try:
        src, applied = mutated_source(m["file"], m["k"])
        baseline, _ = mutated_source(m["file"], -1)        # unparse of the unmutated tree
        if src == baseline:
            return m, "noop"
        open(os.path.join(wt, m["file"]), "w").write(src)
        env = dict(os.environ, PYTHONPATH=wt, PYTHONDONTWRITEBYTECODE="1")
        p = subprocess.run([PY, "-c", "import pymemcache, pymemcache.client.hash, pymemcache.client.retrying, pymemcache.fallback, "
                            "pymemcache.client.ext.aws_ec_client, pymemcache.serde"], cwd=wt, env=env,
                           stdout=subprocess.PIPE, stderr=subprocess.STDOUT, timeout=60)
        if p.returncode != 0:
            return m, "import-fails"
        try:
            p = subprocess.run([PY, "-m", "pytest", "-q", "-x", "-p", "no:cacheprovider", "--timeout=60", "pymemcache/test"],
                               cwd=wt, env=env, stdout=subprocess.PIPE, stderr=subprocess.STDOUT, timeout=600, text=True)
        except subprocess.TimeoutExpired:
            return m, "suite-timeout"
        ok = p.returncode == 0 and "488 passed" in p.stdout
        return m, "survives" if ok else "killed-by-suite"
    finally:
        subprocess.run(["git", "-C", wt, "checkout", "--", "."], stdout=subprocess.DEVNULL, stderr=subprocess.DEVNULL)


def phase_gen(maxn, seed):
    os.makedirs(OUT, exist_ok=True)
    sites = []
    for f in FILES:
        sites += list_sites(f)
    print("mutation sites:", len(sites), {f: sum(1 for s in sites if s["file"] == f) for f in FILES})
    rng = random.Random(seed)
    rng.shuffle(sites)
    sites = sites[:maxn]
    json.dump(sites, open(os.path.join(OUT, "mutants.json"), "w"), indent=0)
    results = []
    p1 = os.path.join(OUT, "phase1.json")
    if os.path.exists(p1):
        results = json.load(open(p1))
        have = {(m["file"], m["k"]) for m in results}
        sites = [m for m in sites if (m["file"], m["k"]) not in have]
        print("resuming: %d already judged, %d to go" % (len(results), len(sites)), flush=True)
    nw = int(os.environ.get("AUTOMUT_WORKERS", "12"))
    with cf.ThreadPoolExecutor(nw) as ex:
        # one slot per worker thread
        import threading
        slots = {}
        lock = threading.Lock()

        def job(m):
            with lock:
                t = threading.get_ident()
                if t not in slots:
                    slots[t] = len(slots)
            return suite_survives((m, slots[t]))
        for i, (m, verdict) in enumerate(ex.map(job, sites)):
            m["suite"] = verdict
            results.append(m)
            if i % 25 == 0:
                print(i, "done", flush=True)
                json.dump(results, open(p1, "w"), indent=0)
                json.dump([x for x in results if x["suite"] == "survives"], open(os.path.join(OUT, "survivors.json"), "w"), indent=0)
    surv = [m for m in results if m["suite"] == "survives"]
    json.dump(results, open(os.path.join(OUT, "phase1.json"), "w"), indent=0)
    json.dump(surv, open(os.path.join(OUT, "survivors.json"), "w"), indent=0)
    from collections import Counter
    print("phase 1:", Counter(m["suite"] for m in results))


def check_mutant(args):
    m, slot = args
    wt = worktree(slot)
    try:
        src, applied = mutated_source(m["file"], m["k"])
        open(os.path.join(wt, m["file"]), "w").write(src)
        env = dict(os.environ, VERIF_REPO=wt, VERIF_NO_EVIDENCE="1", PYTHONDONTWRITEBYTECODE="1")
        ran = []
        for cid in CHECKS[m["file"]]:
            import signal
            proc = subprocess.Popen([os.path.join(HERE, "check"), cid, "quick"], cwd=HERE, env=env, stdout=subprocess.PIPE,
                                    stderr=subprocess.STDOUT, text=True, errors="replace", start_new_session=True)
            try:
                out_, _ = proc.communicate(timeout=int(os.environ.get("AUTOMUT_CHECK_TIMEOUT", "300")))
            except subprocess.TimeoutExpired:
                # the workload hangs on this mutant (the registered check would end INCONCLUSIVE by its watchdog): noticed
                try:
                    os.killpg(proc.pid, signal.SIGKILL)
                except OSError:
                    pass
                proc.communicate()
                ran.append((cid, "hang", "check did not finish within the mutation-run budget"))
                break

            class p:
                returncode = proc.returncode
                stdout = out_
            first = ""
            lines = p.stdout.splitlines()
            for i, l in enumerate(lines):
                if l.startswith("VIOLATION"):
                    first = (lines[i + 1] if i + 1 < len(lines) else "")[:200]
                    break
            ran.append((cid, p.returncode, first))
            if p.returncode == 1:
                break
        m["checks"] = ran
        m["caught_by"] = ran[-1][0] if ran and ran[-1][1] == 1 else ("hang:" + ran[-1][0] if ran and ran[-1][1] == "hang" else None)
        return m
    finally:
        subprocess.run(["git", "-C", wt, "checkout", "--", "."], stdout=subprocess.DEVNULL, stderr=subprocess.DEVNULL)


def phase_run(maxn, seed, conc):
    surv = json.load(open(os.path.join(OUT, "survivors.json")))
    done = {}
    rp = os.path.join(OUT, "results.json")
    if os.path.exists(rp):
        for m in json.load(open(rp)):
            done[(m["file"], m["k"])] = m
    rng = random.Random(seed)
    rng.shuffle(surv)
    # categories read once and found equivalent for the properties (see DESIGN 7.5) are not re-run
    skip = ("destroy_on_fail", "logger.", "logging.")
    todo = [m for m in surv if (m["file"], m["k"]) not in done and not any(x in m["op"] for x in skip)][:maxn]
    print("survivors of the suite:", len(surv), "already evaluated:", len(done), "to do now:", len(todo), flush=True)
    import threading
    slots = {}
    lock = threading.Lock()

    def job(m):
        with lock:
            t = threading.get_ident()
            if t not in slots:
                slots[t] = 20 + len(slots)
        return check_mutant((m, slots[t]))
    with cf.ThreadPoolExecutor(conc) as ex:
        for i, m in enumerate(ex.map(job, todo)):
            done[(m["file"], m["k"])] = m
            print("%s:%d [%s] %s => %s" % (m["file"].split("/")[-1], m["line"], m["func"], m["op"][:90],
                                          ("caught by %s: %s" % (m["caught_by"], m["checks"][-1][2][:100])) if m["caught_by"] else
                                          "NOT CAUGHT %r" % ([(c, r) for c, r, _ in m["checks"]],)), flush=True)
            json.dump(list(done.values()), open(rp, "w"), indent=0)
    allr = list(done.values())
    print("evaluated %d, caught %d, not caught %d" % (len(allr), sum(1 for m in allr if m["caught_by"]),
                                                      sum(1 for m in allr if not m["caught_by"])))


if __name__ == "__main__":
    a = sys.argv[1:]
    maxn = int(a[a.index("--max") + 1]) if "--max" in a else 100000
    seed = int(a[a.index("--seed") + 1]) if "--seed" in a else 1
    conc = int(a[a.index("--conc") + 1]) if "--conc" in a else 3
    try:
        if a[0] == "gen":
            phase_gen(maxn, seed)
        elif a[0] == "run":
            phase_run(maxn, seed, conc)
        elif a[0] == "show":
            src, applied = mutated_source(a[1], int(a[2]))
            print(applied)
    finally:
        if a[0] in ("gen", "run"):
            remove_worktrees()
