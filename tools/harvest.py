"""Harvest seeded changes produced by independent sub-agents: python3 tools/harvest.py C15 [C06 ...]
For each /tmp/wt_<ID>/CHANGEn.diff: verify on that scratch worktree that (1) it applies to a clean checkout, (2) the unit suite
still passes (488), (3) demon.py exits 1 with the change and 0 without.  Only then copy to seeded/<ID>-n/."""
import json, os, re, shutil, subprocess, sys
HERE = os.path.dirname(os.path.dirname(os.path.abspath(__file__)))
PY = "/venv/bin/python"

def sh(cmd, cwd, timeout=900, env=None):
    e = dict(os.environ)
    e.update(env or {})
    p = subprocess.run(cmd, cwd=cwd, shell=True, stdout=subprocess.PIPE, stderr=subprocess.STDOUT, text=True, timeout=timeout, env=e)
    return p.returncode, p.stdout

def harvest(pid):
    wt = "/tmp/%s%s" % (os.environ.get("WT_PREFIX", "wt_"), pid)
    sh("git checkout -- pymemcache", wt)
    notes = open(os.path.join(wt, "NOTES.md")).read() if os.path.exists(os.path.join(wt, "NOTES.md")) else ""
    for n in (1, 2, 3, 4, 5, 6):
        diff = os.path.join(wt, "CHANGE%d.diff" % n)
        demo = os.path.join(wt, "demo%d.py" % n)
        if not (os.path.exists(diff) and os.path.exists(demo)):
            continue
        env = {"PYTHONPATH": wt}
        rec = {"property": pid, "n": n}
        rc0, out0 = sh("%s demo%d.py" % (PY, n), wt, env=env, timeout=300)
        rec["demo_clean_rc"] = rc0
        rc, out = sh("git apply --check CHANGE%d.diff && git apply CHANGE%d.diff" % (n, n), wt)
        if rc != 0:
            print(pid, n, "REJECT: diff does not apply:", out[-200:])
            continue
        try:
            files = sh("git diff --name-only", wt)[1].split()
            rec["files"] = files
            if any(("/test/" in f) or not f.startswith("pymemcache/") for f in files):
                print(pid, n, "REJECT: touches non-source files", files)
                continue
            rc1, out1 = sh("%s demo%d.py" % (PY, n), wt, env=env, timeout=300)
            rec["demo_changed_rc"] = rc1
            rct, outt = sh("%s -m pytest -q -p no:cacheprovider pymemcache/test 2>&1 | tail -2" % PY, wt, env=env, timeout=900)
            m = re.search(r"(\d+) passed", outt)
            rec["suite"] = outt.strip().splitlines()[-1] if outt.strip() else ""
            passed = int(m.group(1)) if m else 0
            failed = "failed" in outt or "error" in outt.lower()
        finally:
            sh("git checkout -- pymemcache", wt)
        ok = rc0 == 0 and rc1 != 0 and passed == 488 and not failed
        print(pid, n, "KEEP" if ok else "REJECT", rec)
        if not ok:
            continue
        dst = os.path.join(HERE, "seeded", "%s-%s%d" % (pid, os.environ.get("SEED_ROUND", ""), n))
        os.makedirs(dst, exist_ok=True)
        shutil.copy(diff, os.path.join(dst, "patch.diff"))
        shutil.copy(demo, os.path.join(dst, "demo.py"))
        # the section of NOTES.md about this change
        sec = notes
        parts = re.split(r"(?m)^#+ .*?(?:[Cc]hange|CHANGE)\s*%d\b.*$" % n, notes)
        if len(parts) > 1:
            sec = re.split(r"(?m)^#+ .*?(?:[Cc]hange|CHANGE)\s*\d\b.*$", parts[1])[0]
        open(os.path.join(dst, "notes.md"), "w").write(sec.strip()[:6000] + "\n")
        meta = {"property": pid, "checks": [pid], "patch": "patch.diff", "demo": "demo.py", "source": "independent sub-agent given only the property text and a scratch worktree",
                "files": rec["files"], "verified": {"applies_to_clean_checkout": True, "unit_suite_with_change": rec["suite"],
                                                    "demo_exit_without_change": rc0, "demo_exit_with_change": rc1},
                "needs_to_manifest": "see notes.md", "summary": ""}
        json.dump(meta, open(os.path.join(dst, "meta.json"), "w"), indent=1)

for pid in sys.argv[1:]:
    harvest(pid)
