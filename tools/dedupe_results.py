"""seeded/RESULTS.md: keep the newest row per change (eval_all appends), sorted by change name; refresh the tally line."""
import os, re
HERE = os.path.dirname(os.path.dirname(os.path.abspath(__file__)))
p = os.path.join(HERE, "seeded", "RESULTS.md")
lines = open(p).read().splitlines()
head, rows = [], {}
for l in lines:
    m = re.match(r"\| ((?:own/)?[\w./-]+) \|", l)
    if m and not l.startswith("| change |") and not l.startswith("|---"):
        rows[m.group(1)] = l
    elif not rows and not l.startswith("Tally:"):
        head.append(l)
def key(n):
    m = re.match(r"(own/)?C?(\d+)?-?(?:r(\d+)-)?(\d+)?", n)
    return (n.startswith("own/"), n)
names = sorted(rows, key=key)
ind = [n for n in names if not n.startswith("own/")]
own = [n for n in names if n.startswith("own/")]
c_ind = sum(1 for n in ind if "| caught |" in rows[n])
c_own = sum(1 for n in own if "| caught |" in rows[n])
while head and not head[-1].strip():
    head.pop()
out = head + ["", "Tally: %d of %d independent changes and %d of %d own patches caught by at least one listed quick check; not caught: %s" % (
    c_ind, len(ind), c_own, len(own), ", ".join(n for n in names if "| caught |" not in rows[n]) or "none"), ""]
# keep the table header directly above the rows
hdr = [l for l in head if l.startswith("| change |") or l.startswith("|---")]
out = [l for l in out if l not in hdr] + hdr + [rows[n] for n in names]
open(p, "w").write("\n".join(out) + "\n")
print("rows", len(names), "independent caught", c_ind, "/", len(ind), "own", c_own, "/", len(own))
