"""After tools/harvest.py: fill meta.json 'summary' from the 'summary:' line of notes.md and evaluate each new seeded change
on the scratch worktree $EVAL_REPO (default /tmp/evalrepo): own check first, then (if missed) the checks relevant to the touched
files.  python3 tools/round_eval.py r8 C17 [C05 ...]"""
import glob, json, os, re, subprocess, sys
HERE = os.path.dirname(os.path.dirname(os.path.abspath(__file__)))
sys.path.insert(0, os.path.join(HERE, "tools"))
REL = {
    "pymemcache/client/base.py": ["C01", "C02", "C03", "C04", "C05", "C06", "C07", "C09", "C10", "C16", "C20", "C08", "C12", "C19"],
    "pymemcache/client/hash.py": ["C12", "C13", "C07", "C16", "C11", "C20", "C19", "C10", "C01", "C06"],
    "pymemcache/pool.py": ["C09", "C08", "C10", "C16"],
    "pymemcache/serde.py": ["C15", "C04", "C07", "C16"],
    "pymemcache/client/murmur3.py": ["C14", "C11"],
    "pymemcache/client/rendezvous.py": ["C11", "C12", "C14", "C13"],
    "pymemcache/client/retrying.py": ["C17", "C16"],
    "pymemcache/fallback.py": ["C18"],
    "pymemcache/client/ext/aws_ec_client.py": ["C19"],
    "pymemcache/exceptions.py": ["C05", "C16", "C13"],
}
rnd = sys.argv[1]
env = dict(os.environ, EVAL_REPO=os.environ.get("EVAL_REPO", "/tmp/evalrepo"))
for pid in sys.argv[2:]:
    for d in sorted(glob.glob(os.path.join(HERE, "seeded", "%s-%s-*" % (pid, rnd)))):
        mp = os.path.join(d, "meta.json")
        m = json.load(open(mp))
        notes = open(os.path.join(d, "notes.md")).read()
        s = re.search(r"(?im)^\W*summary\W*:\W*(.+)$", notes)
        if s and not m.get("summary"):
            m["summary"] = s.group(1).strip().strip("*`")[:300]
        def run(checks):
            p = subprocess.run([os.path.join(HERE, "tools", "eval_patch.sh"), os.path.join(d, "patch.diff")] + checks,
                               stdout=subprocess.PIPE, stderr=subprocess.STDOUT, text=True, errors="replace", env=env, timeout=7200)
            return p.stdout.strip().splitlines()
        out = run([pid])
        caught = [l.split()[0] for l in out if " rc=1 " in l]
        tried = [pid]
        if not caught:
            others = []
            for f in m.get("files", []):
                for c in REL.get(f, []):
                    if c != pid and c not in others:
                        others.append(c)
            for c in others:
                o = run([c])
                out += o
                tried.append(c)
                if any(" rc=1 " in l for l in o):
                    caught.append(c)
                    break
        m["checks"] = tried if caught else [pid]
        m["caught_by"] = caught
        m["not_caught_by"] = [l.split()[0] for l in out if " rc=0 " in l or " rc=2 " in l]
        m["first_pass"] = {"caught_by": caught, "tried": tried}
        json.dump(m, open(mp, "w"), indent=1)
        print(os.path.basename(d), "CAUGHT by %s" % caught if caught else "MISSED (tried %s)" % tried, "|", m.get("summary", "")[:150], flush=True)
        for l in out:
            print("    ", l[:260], flush=True)
