"""Regenerates MANIFEST.json from the table below (python3 tools/gen_manifest.py)."""
import json
import os

HERE = os.path.dirname(os.path.dirname(os.path.abspath(__file__)))
props = [json.loads(l)["id"] for l in open(os.path.join(HERE, "properties.jsonl")) if l.strip()]

# id -> (category, technique, level text, level note, design ref)
CHECKS = {
    "C14": ("exploration",
            "runtime contract (icontract postcondition on the real murmur3_32) vs two independent reference oracles",
            "Every return value of the real murmur3_32 (and of the name bound in rendezvous.py) is compared by a postcondition with an independent bytes-oriented reference; bounded-exhaustive over reduced byte alphabets, every length 0..64/300 with random content and boundary seeds, plus determinism/range for non-Latin-1 strings. Held on the executions counted in the evidence; not a proof over all strings.",
            "Trusts: the independent Python reference, cross-checked each run against a C transcription of Appleby's routine built with ASan+UBSan and 17 published vectors.",
            "DESIGN.md §2 C14"),
}

CHECKS.update({
    "C01": ("fault_enumeration",
            "reply-ownership tagging at the socket_module seam (server-side tags on every reply byte) under enumerated fault plans and delivery schedules",
            "The real Client/PooledClient/HashClient talk through their socket_module seam to a reference server that tags every reply byte with the public call that caused it. Every socket call of every public data operation is faulted once with every applicable fault kind (timeouts, resets, EOF, EINTR, error/garbage/wrong-kind reply lines per command, truncation at every byte then EOF or stall), under whole/random/single-byte delivery, followed by probes on the same object; a byte delivered to another call (STALE_READ), own reply left unread on an open connection at normal return (UNREAD_REPLY) or a wait that can never end (BLOCKED_RECV) is a violation. Exhaustive over single-fault plans per operation; two-fault plans and random multi-op histories sampled.",
            "Trusts the FakeNet/RefServer model (synchronous replies, atomic sendall); says nothing about servers that append junk after a complete reply, nor about more than two faults per history beyond the sampled ones.",
            "DESIGN.md §2 C01"),
    "C10": ("fault_enumeration",
            "BaseException injection at every socket call + reply-ownership tagger + pool.used monitor",
            "KeyboardInterrupt, SystemExit and a BaseException subclass are raised from every socket call of every public operation (complete enumeration of crash points for single-operation histories on Client, PooledClient with max_pool_size 1 and 2, HashClient pooled or not, with and without ignore_exc); the interrupt must reach the caller, and in the follow-up calls the C01 ownership monitor must stay silent, pool.used must be empty after each call unwound and no call may fail with pool exhaustion.",
            "Interrupts are raised inside socket calls (where signals/gevent timeouts surface during blocking I/O), not between arbitrary bytecodes; trusts the FakeNet/RefServer model.",
            "DESIGN.md §2 C10"),
})

CHECKS.update({
    "C02": ("exploration",
            "strict server-grade parser on every byte passed to sendall() vs an independent intended-command builder",
            "Every public key-taking operation is called with hostile keys (every byte class at every position of short keys, empty/whitespace-only keys, protocol text, boundary lengths with and without prefix, str/bytes, unicode on/off), values containing protocol text, integers over the protocol ranges and non-integers, and one bad key at each position of multi-key calls, on Client, PooledClient and HashClient; the bytes written to the injected socket are read by a strict parser and must be exactly the commands an independent builder derives from the arguments, or nothing at all with an input error.",
            "Trusts the strict reader and the intended-command builder (both written from protocol.txt / the statement, never calling the library); raw_command, stats arguments, bool-as-int, negative delta/delay and non-integer flags are outside the statement.",
            "DESIGN.md §2 C02"),
    "C03": ("exploration",
            "differential monitor over recv() delivery schedules chosen at the socket_module seam (whole delivery, itself checked against the reference server, is the oracle)",
            "For a corpus of ~85 request/reply scenarios (all three reader paths: line, sized value, end-token segment; error lines; the ElastiCache config reply through the real AWS client) the same reply stream is delivered under every subset of cut positions for streams up to 14 bytes (20 thorough), all 1-/2-/3-cut sets (sampled above a size), single bytes, RECV_SIZE-aligned cuts and EINTR before pieces; the call must return exactly what it returns for one-piece delivery.",
            "recv(n) honours n; the corpus is finite; 2-/3-cut sets for long streams are sampled.",
            "DESIGN.md §2 C03"),
    "C20": ("exploration",
            "runtime contract (icontract postcondition + raise-path recorder on the real check_key_helper, patched into base and hash) vs an independent legality predicate; wire bytes via FakeNet",
            "check_key_helper, Client.check_key, PooledClient.check_key and HashClient operations are driven with all keys of length 1..3 over 11 byte classes, every byte value at every position of 10-byte keys and boundary positions of 250-byte keys, every code point up to U+02FF in str keys, byte lengths 248..252 with multi-byte UTF-8 and prefixes 0..250; accept/reject, the returned wire key, the exception type and the bytes on the wire are compared with the predicate written from the statement.",
            "Trusts the 10-line legality predicate; the empty prefixed key, lone surrogates and non-str/bytes keys are excluded by the statement.",
            "DESIGN.md §2 C20"),
})

CHECKS.update({
    "C11": ("exploration",
            "reference-model monitor (independent rendezvous rule on an independent murmur3) on every get_node result + FakeNet connection log for the server actually contacted + cross-process digests",
            "Every placement of key corpora on 8 node sets is compared with an independent implementation of the published rule (incl. hash functions that force ties); all insertion orders (all permutations up to 5/6 nodes) and all add/remove histories up to length 4/5 must give the placement of a fresh hasher on the final set, each step moving only permitted keys; the server HashClient actually contacts is the rule's winner for every spelling of the server list; digests computed in 8 interpreter processes with different PYTHONHASHSEED are equal; shares are within 0.5x..1.5x of the mean.",
            "Trusts the reference rule and C14's reference hash; for non-Latin-1 keys only determinism/order-independence is checked.",
            "DESIGN.md §2 C11"),
    "C17": ("exploration",
            "event-log monitor (scripted inner client + recorder substituted for retrying.sleep) vs an independent decision function; exhaustive",
            "Exhaustive over attempts 1..4 (5 thorough) x all outcome sequences over a 4-class exception hierarchy x all 81 disjoint retry_for/do_not_retry_for pairs x spellings x retry_delay: invocation count, call/sleep interleaving, sleep argument, identity of the returned and of the re-raised object, unchanged argument forwarding (also through the item protocol); all 175 overlapping pairs and other invalid configurations must be rejected at construction.",
            "Trusts the 10-line decision function written from the statement.",
            "DESIGN.md §2 C17"),
    "C18": ("exploration",
            "call-log monitor over scripted caches (and parsed command logs of reference servers behind real Clients); exhaustive",
            "Exhaustive over 1..4 caches x all hit/miss assignments x every read and write with default and non-default arguments: consult order, early stop, identity of the returned answer, writes reaching only the primary with the caller's arguments.",
            "A miss is None / {} as the statement's scripted caches define it; FallbackClient.gets over real Clients (miss = (None, None)) is not judged.",
            "DESIGN.md §2 C18"),
})

CHECKS.update({
    "C15": ("exploration",
            "runtime contracts (icontract on the real serialize/deserialize methods) + round-trip oracle with recursive exact-type comparison + recomputation oracle for the compression algebra",
            "Values from a recursive seeded generator (exact-type traps: bool, int/str/bytes/list/dict subclasses, dataclass and __slots__ objects; ints up to 4000 digits; sizes straddling every threshold; incompressible and compressible data) go through PickleSerde (protocols 0..5), CompressedSerde (min_compress_len 0/1/10/400 x zlib/bz2/lzma/identity) and LegacyWrappingSerde: the serialized form must be bytes or ASCII text with 16-bit flags (contract), the round trip must return an equal value of exactly the same type, COMPRESSED must be set exactly when the stored form is compress(inner form), never larger than the inner form, never at or below the threshold.",
            "Trusts pickle and the codecs themselves; the generator's classes live in an importable harness module.",
            "DESIGN.md §2 C15"),
})

CHECKS.update({
    "C04": ("exploration",
            "reference-server ground truth + value oracle over store->fetch round trips through the real client paths, random reply segmentation",
            "Seeded round trips (each regenerated from its case seed) over Client, PooledClient and HashClient(1..3): legal keys up to the 250-byte limit (str/bytes, unicode, prefixes), values over the full byte alphabet incl. protocol text and sizes around the 4096-byte receive size up to 1 MiB, str/int without serde, generated objects under pickle 0..5 / compressed / custom serdes; stores via set/add/replace/cas/set_many/append/prepend/explicit flags, fetches via get/gets/gat/gats/get_many/gets_many with key collections list/tuple/set/frozenset/dict/dict_keys/generator/iterator. The server must hold exactly prefix+encoded key (and the explicit flags); the fetch must return every present key once, under the caller's key, with the expected value and exact type, never the prefix, never an absent key.",
            "RefServer stands for the 'faithful memcached'; random (seeded) rather than exhaustive.",
            "DESIGN.md §2 C04"),
    "C05": ("exploration",
            "API-level reference model (dict with expiry and cas versions) stepped in lockstep with client+RefServer on a shared virtual clock; cas tokens through a token<->version bijection",
            "Bounded-exhaustive: all histories of length <=3 (<=4 thorough) over ~45 op instances incl. cas with fresh/stale/bogus tokens, expiring stores and clock advances below/at/above the ttl, noreply variants; every return value/exception class is compared with the model, plus a final get_many sweep; seeded random histories of length 10..60 on Client, PooledClient and HashClient(1); exhaustive set_many failed-key-list scenarios (server refusing subsets of keys).",
            "RefServer (wire level) and AbstractCache (API level) are written separately and share only the listed server-semantics assumptions (evidence file).",
            "DESIGN.md §2 C05"),
})

CHECKS.update({
    "C06": ("fault_enumeration",
            "socket ledger at the socket_module seam (owner, per-call history with the timeout in force, closes) + offline ledger checker under enumerated fault plans",
            "Every socket call of an operation (getaddrinfo, socket(), setsockopt, wrap_socket, both settimeouts, connect, sendall, recv, close) is faulted with every error kind, and depth-2 plans are derived from the traces of depth-1 runs so later resolved addresses, cleanup paths and re-connections are faulted too; servers with 1/2/3 resolved addresses of mixed families, UNIX sockets and TLS-wrapped TCP; connect_timeout/timeout/no_delay/keepalive configurations; Client, PooledClient, HashClient. The ledger must show: at most one open socket per owning Client, every socket closed by the end (and a failed one before the failed call returns), no use after close or after a hard failure, the next call working on a fresh socket, connect() under connect_timeout and I/O under timeout, TLS connections only through the wrapper, options applied, and fallback to a later address when socket creation fails for an earlier one.",
            "Trusts FakeNet's ledger; ownership is attributed by finding the pymemcache Client instance on the creating call stack. Depth-2 plans are sampled in quick, exhaustive in thorough.",
            "DESIGN.md §2 C06"),
    "C07": ("fault_enumeration",
            "miss-equivalence monitor: the failure result of every read under injected faults vs the same call on an empty healthy server through the same class",
            "With ignore_exc=True every read (get, gets, gat, gats, get_many, gets_many) of Client, PooledClient and HashClient (1..3 servers, pooled or not, retry_attempts 0 and 2) is run under every single-fault plan of C01 at every socket call of the read, with servers refusing/timing out/resetting (one or all down), with a deserializer that raises and with undecodable items, defaults passed as sentinels by keyword where the signature accepts them and positionally for get; the result must equal (value, type, shape) the miss result, nothing may be raised, and set+get must work afterwards.",
            "The miss result of the same class is taken as the specification; parameters a class does not accept are not passed (C16's subject).",
            "DESIGN.md §2 C07"),
})

CHECKS.update({
    "C09": ("fault_enumeration",
            "socket-identity ledger + pool.used/pool.free after every call + virtual pool clock; offline checker over single-threaded fault histories",
            "PooledClient histories: (1) every catalogue op x every socket call x every fault kind after a warm-up, for pool_idle_timeout {0,5} x max_pool_size {1,2,None} x ignore_exc; (2) an idle-gap grid (gaps 0,T-1,T,T+1,10T between ops) and slow-call scenarios (time passes inside a call); (3) seeded random histories of 2..8 ops with per-op faults, gaps and quit(). A connection on which a call failed must be closed before the call returns and never used again, a healthy idle one must be reused until idle longer than the timeout, an expired one must be closed and never reused, pool.used must be empty after every call and exhaustion must never be reported with nothing checked out.",
            "Single-threaded (thread interleavings are C08's subject); 'connection' = socket; input errors may or may not recycle the connection.",
            "DESIGN.md §2 C09"),
})

CHECKS.update({
    "C12": ("exploration",
            "per-server parsed command logs behind a multi-server FakeNet, with placement known to the harness through a harness-defined hasher= (and the default hasher cross-checked with the independent rendezvous reference)",
            "Seeded scenarios (regenerated from their seed): 1..5 servers (TCP and UNIX), placements crc32 mod n / all-on-one / round-robin table / default rendezvous, key sets of 0..50 str or bytes keys with (server_key, key) pairs mixed in, prefix on/off, pooling on/off. Every single-key operation must reach only owner(k) with wire key prefix+k; set_many/get_many/gets_many/delete_many must send each key to owner(k) exactly once; get_many/gets_many must equal the per-key gets; everything written by set/set_many must be found by get, gets, touch, append, prepend, replace, incr, cas, add and delete; set_many's failed list must be the union of the per-server refusals.",
            "One routing key per raw key within a scenario; str and bytes spellings never mixed for one key.",
            "DESIGN.md §2 C12"),
    "C16": ("exploration",
            "differential monitor: identical reference servers behind five client stacks; parsed command streams, connection setup and outcomes compared with plain Client's",
            "Grid: ~200 operation instances (every key-addressed op; noreply None/True/False; expire; flags; default/cas_default sentinels; key collections; bytes/str/int/non-ASCII values; hit/miss/cas match+mismatch/numeric/non-numeric/illegal keys) x single options and all pairs of options (key_prefix, default_noreply, encoding utf8, allow_unicode_keys, pickle/compressed/custom serde, legacy serializer functions, connect_timeout/timeout, no_delay; thorough adds sampled triples) x 4 stacks vs Client: same parsed commands in the same order, same socket options and timeouts on the connections, same return value or exception class, same resulting server keys.",
            "Positional use of parameters whose position differs between classes, str key_prefix on HashClient, ignore_exc (whose documented scope differs per class) and multi-key calls with an illegal key on HashClient are outside the comparison.",
            "DESIGN.md §2 C16"),
})

CHECKS.update({
    "C13": ("exploration",
            "online trace checker over the FakeNet contact log with virtual timestamps (contact-rate windows per run, eviction evidence, bypass, service, escaping exception identity, bounded recovery) under exhaustive short event sequences and random long ones",
            "The real HashClient runs on a virtual clock (substituted for time in the hash and pool modules) against 2-3 reference servers whose health the checker scripts. All event sequences of length 5 (6 thorough) over {5 ops on keys owned by either server, advance 1/11/101 s, server 0/1 starts failing (refused/reset) or recovers} with a failure early in the sequence, for retry_attempts 0/1/2 x ignore_exc x pooling, plus seeded random sequences of length 20..80 over the full alphabet with 3 servers; a sample of leaves and every random sequence is extended by a recovery epilogue (all servers healthy, traffic every dead_timeout/10, original placement demanded after 2.5 dead_timeout).",
            "Definitions fixed in DESIGN.md §2 C13 (failing = OSError on every exchange; contact; runs; closed windows). Private bookkeeping attributes are read only to count abstract states.",
            "DESIGN.md §2 C13"),
})

CHECKS.update({
    "C19": ("exploration",
            "per-node parsed command logs, getaddrinfo log and socket ledger of a multi-server FakeNet whose configuration endpoint is the ground truth for the advertised list",
            "The real AWSElastiCacheHashClient is constructed and reconfigured against a reference endpoint answering 'config get cluster' over a universe of 6 nodes with distinct host names, IPs and ports: all sequences of up to 2 (3 thorough) reconfigurations over 9 node lists (scale-up, scale-down, replace, reorder), use_vpc on/off, pooling on/off, a node failing before the list changes, the discovery reply delivered whole / in single bytes / cut at every position / inside the end token. After every step a 400-key corpus is routed: every key must reach exactly one advertised node through the advertised IP or host name and port, no key may raise, every advertised node must get keys, no connection to a de-advertised node may stay open (also 250 s later, so that dead-server revival cannot bring one back); an endpoint answering ERROR must raise MemcacheUnknownCommandError.",
            "Trusts the documented reply format of the configuration endpoint; balance demanded only as 'at least one of 400 keys per node'.",
            "DESIGN.md §2 C19"),
})

CHECKS.update({
    "C08": ("exploration",
            "deterministic thread scheduler on sys.monitoring (LINE/INSTRUCTION events local to pool.py and PooledClient code objects) + scheduler-aware pool lock (lock_generator= seam) + socket-call points; ownership ledger, pool invariants, deadlock and conservation monitors; schedules enumerated within a preemption bound by prefix replay",
            "Real threads run the real ObjectPool / PooledClient code, one at a time, under a scheduler that can switch threads at every line (thorough: every bytecode instruction) of the pool and PooledClient code, at every pool-lock operation and at every socket call. For 2-thread programs of 1-2 operations and 3-thread programs of 1 operation (succeeding, failing, destroying, clearing; max_size 1/2/None; idle timeout) every schedule with at most P preemptions (quick: 2 for two single-op threads, 1 otherwise, cut by a per-program budget; thorough: one more, plus INSTRUCTION granularity with P=2) and every choice at block/finish points is executed. Monitors: an object handed to a second thread before the first passed it to release/destroy, two threads inside one inner client, used+free > max_size or a duplicate wherever no pool lock is held, any exception out of get/release/destroy/clear other than a justified exhaustion, deadlock, and at quiescence every object/socket idle in the pool or removed/closed exactly once.",
            "Interleavings are those the scheduler can produce at its scheduling points (see assumptions in the evidence); programs have at most 3 threads and 3 operations; budget cuts are reported as cases_cut_by_budget. Two known findings (PooledClient.close() racing an in-flight call) are listed in known_findings.txt.",
            "DESIGN.md §2 C08"),
})

def _add(pid, extra):
    cat, tech, text, note, ref = CHECKS[pid]
    CHECKS[pid] = (cat, tech, text + " " + extra, note, ref)


_add("C01", "ignore_exc=True is one of the configurations.")
_add("C02", "A sequence mode runs 8-30 calls on ONE client (small token pool, stats/cache_memlimit arguments reusing key tokens in between, keys that begin with the prefix or sit at the prefix boundary, Client(ignore_exc=True)), and multi-key calls of 70/130 keys carry an illegal key at positions 0/63/64/65/last.")
_add("C03", "Long reply lines (240-byte keys, long error/version lines) and token-reader replies whose length or last piece is a multiple of the 4096-byte receive size are part of the corpus.")
_add("C07", "A second variant runs with the items present: the result under a fault must be the miss result or the complete undisturbed result (several servers: whole servers missing), never part of it; undeserialisable items also come in sizes that span several recv() calls.")
_add("C08", "Programs in which a thread goes on after quit()/a failed call (double-release windows) are explored exhaustively at 2 preemptions even in quick.")
_add("C09", "A reply line that made the call raise counts as a failure on that connection. A pool-level section checks out several connections at once, releases them at different times and demands after every checkout that nothing idle longer than the timeout is left in the pool and nothing fresher was retired. A race section runs C08's deterministic scheduler on slow-call/checkout programs: get() must never retire an object whose release began <= idle_timeout ago.")
_add("C10", "Also: interrupts arriving in sendall() after the bytes went out, depth-2 plans (an ordinary failure, then an interrupt in a socket call of the cleanup - an interrupt on entry to close() leaves the descriptor open), operations with an illegal key on a warm pooled connection, and pools whose idle connection expires at the next checkout.")
_add("C11", "Hashers seeded through RendezvousHash(nodes=<unsorted list>) go through the same histories; keys outside Latin-1 are compared with the pinned release's values (code points mod 256).")
_add("C13", "Also checked in every state: no key-addressed command is issued twice in one call; what set_many (plain keys and (server_key, key) pairs) does not report as failed is found by an immediately following get unless that very call took the server out of rotation; targeted sequences keep one server down across the retry / give-up / dead phases for every configuration.")
_add("C14", "For strings outside Latin-1 the value must additionally stay what the pinned release computes (reference on code points mod 256: release stability of placement).")
_add("C16", "One-shot iterables, repeated keys, the item protocol (incl. falsy stored values) and timeout-only / connect_timeout-only configurations are in the grid.")
_add("C18", "Hits whose value is falsy but not None are a third cache state (3^n assignments).")
_add("C19", "Which node fails before a reconfiguration varies, a reconfiguration refused by the endpoint (ERROR) may precede the successful one, and the ERROR reply is also delivered split.")
_add("C20", "Further entry points: Client(ignore_exc=True).get, Client(encoding='utf8').check_key and a HashClient with no server left in rotation; keys that begin with the prefix; the repository's own unit suite is run once with the C14/C15/C20 contracts switched on (a contract firing there is reported).")
_add("C03", "After every delivery schedule a follow-up get is issued on the same object and must give the same result as after the single-piece delivery (a reader that stops early or late leaves the stream at a different position); several EINTRs in a row are injected in one gap; the fake kernel returns b'' for recv(0).")
_add("C07", "Servers given as UNIX socket paths, outages that outlast retry_timeout and dead_timeout (the same read repeated after each wait), and the read-through pattern (the caller fills the dict a failed multi-key read returned, then reads fail again) are part of the grid.")
_add("C11", "64-bit and high-bits-only hash functions, IPv6 literals as HashClient servers (node name '<host>:<port>'), and every add/remove history a second time with look-ups only after some of the steps (several membership changes between two look-ups).")
_add("C13", "Server 0 is a UNIX socket in a third of the targeted and a quarter of the random sequences. Whether a contact was a memcached-error exchange is decided from the server's own reply, because ignore_exc swallows the exception.")
_add("C14", "Strings outside Latin-1 include lone surrogates and 100-400 character strings.")
_add("C15", "One serde object per configuration serves the whole run, and a second serialize is forced while one is in progress on the same object (re-entrantly through __reduce__, and from a second thread released from inside the first dump).")
_add("C17", "Sessions of 2-4 calls through ONE RetryingClient (every call has the full budget); outcomes that are not Exceptions (KeyboardInterrupt, SystemExit, a BaseException subclass) are never retried and reach the caller. Two threads with one call each on one wrapper are run under the deterministic scheduler (every schedule with <=2/3 preemptions at line granularity inside retrying.py): each caller gets its own result or its own final exception.")
_add("C02", "Commands without a key (version, quit, shutdown [graceful]) and every operation called with only its required arguments (documented defaults on the wire) are judged too; every shard (a fresh process) starts with a caller's slip outside the statement (a bool where an integer belongs) followed by well-formed calls whose integers equal the slipped value.")
_add("C06", "Fire-and-forget misc commands and quit are in the operation list; after C13's random fail-over histories close()/quit()/disconnect_all() on the HashClient must leave no socket open; sends that fail part-way and EAGAIN receive time-outs are fault kinds.")
_add("C08", "Every thread reads its own item, delivered in two pieces with a scheduling point in between; an object factory failing for one thread's checkout is combined with idle expiry.")
_add("C09", "A read whose first reply line is a memcached error line failed on its connection even when ignore_exc turned it into a miss; idle timeouts that are not whole seconds.")
_add("C10", "UNIX-socket stacks; histories in which two calls are interrupted (every site x every site for 4x3 operation pairs).")
_add("C12", "The empty server key is one of the server keys.")
_add("C16", "Arguments are also passed positionally in the order of Client's signature (gat/gats excepted), noreply=None explicitly, boundary keys (empty with a prefix, at the length limit, non-ASCII, non-UTF-8 bytes), the *_multi/disconnect_all aliases, and raw_command/version/stats/flush_all/quit/close on the stacks that offer them; sessions of 3-6 calls on one object per stack are compared step by step.")
_add("C15", "The library's default codec (nothing passed for compress/decompress) and multi-MiB compressible values; BOM and other code points codecs treat specially.")
_add("C20", "Unicode keys that normalisation would change; the judged key as the server key of a (server_key, key) pair on get/set/get_many/set_many.")
_add("C19", "A user-supplied hasher offering only the documented three methods in a quarter of the scenarios.")
_add("C19", "Two nodes on one host/IP with different ports, a node replaced under its old name and port (DNS follows the advertised machine), use_vpc given as 1/0.")
_add("C18", "The order is also (re)configured after construction through the public caches attribute, and 12-call sessions run on one FallbackClient while the caches' contents change.")
_add("C20", "Clients whose server refuses connections are a further entry point (17 operations in rotation): an illegal key is still MemcacheIllegalInputError, not the connection error.")

_add("C08", "Every other public data method of PooledClient runs in two-thread programs against a read, a failing read and itself, each on the calling thread's own items with the undisturbed result demanded. The pool module's threading global is shadowed by scheduler-aware locks, so a pool that is not given (or ignores) lock_generator is still schedulable, and the PooledClient a HashClient(use_pooling=<truthy>) builds is explored with preemptions through the HashClient.")
_add("C02", "Batches that are large in bytes (tens to hundreds of KiB of well-formed commands before a bad key or an unencodable value; 300-600 long keys in one fetch/delete) and values beyond the server's item limit (still the caller's command, with or without noreply) are part of the grid.")
_add("C03", "Cut schedules are also aligned with what the stream contains: 0..8 bytes into every protocol keyword / end token occurring in it, alone and combined with cuts at the end of that line and at receive-size boundaries; big raw_command replies carry protocol keywords past the first receive buffer.")
_add("C05", "Wide histories put 127..1025 keys into one set_many / get_many / gets_many / delete_many (noreply on and off) on every stack.")
_add("C07", "One reply fault is a complete, well-formed item for a key nobody asked for.")
_add("C11", "Two threads look keys up on one hasher (fresh, just after add_node/remove_node, seeded through the constructor) under the deterministic scheduler at line granularity inside RendezvousHash, every schedule within the preemption bound: each answer must be the rule's winner.")
_add("C12", "Key collections are lists, tuples, generators or iterators.")
_add("C13", "A dual-stack configuration gives every server name two resolved addresses: one attempt on a server that is down is still one contact.")
_add("C14", "Seeds outside 0..2^32-1 (negative, 64-bit) keep meaning their low 32 bits, in murmur3_32 and through RendezvousHash(seed=...) (release stability).")
_add("C15", "Values that are themselves valid zlib/bz2/lzma/gzip streams (level-0 streams are still compressible, so every codec flags them).")
_add("C16", "Configurations with only a legacy serializer or only a legacy deserializer.")
_add("C18", "A cas token handed out by a fallback cache through gets/gets_many is then used in cas() (first cache only, twice); writes while the primary raises (8 exception kinds) must not turn up at a fallback cache; the order is reconfigured between session calls; two threads share one fresh FallbackClient under the deterministic scheduler (every schedule within the preemption bound, line granularity inside fallback.py).")
_add("C19", "Per scenario options: DEBUG logging for the library with a handler that formats every record, a TLS context (every connect / send / receive - the discovery connection included - must go through the wrapper), a server added by hand through add_server() before a reconfiguration (retired like any node that is not advertised); endpoints answering with an empty or garbled payload must leave no open connection and a usable client.")
_add("C20", "The mapping protocol (client[key], client[key] = v, del client[key]) is among the operations.")
_add("C15", "Reference cycles and shared substructure (judged structurally), pickles above 128 KiB and 1 MiB, and a class whose module-level name is re-bound between two round trips.")
_add("C11", "A membership change in one thread while another looks keys up (the placement after both are done is judged); hashers with different seeds side by side over the same node names; falsy node objects; host names with capitals.")
_add("C13", "Failure kinds include a server that takes the request and resets the connection when the reply is read; one operation sends 1100 keys of one server in a single get_many. A contact the server answered with an error line ends a run of failed contacts for the rate windows and is skipped in the eviction evidence.")
_add("C17", "The wrapped method rotates through every command of a client (incr, append, cas, ...), not only get.")
_add("C18", "noreply=None passed explicitly, 600- and 1100-key reads, close() in the middle of a session.")
_add("C20", "Clients whose value encoding is latin-1 / cp1252 / utf-16 (keys stay ASCII / UTF-8).")
_add("C03", "Stat values that end like a terminator line.")
_add("C08", "A forked child is modelled (os.getpid() changes once the fresh pool exists) with two threads making the first calls; commands PooledClient does not wrap upstream are operations if it offers them; close() with two idle connections and a dead peer on one.")
_add("C09", "Calls made while the caller handles an exception of its own, client_class set to a Client subclass whose instances are falsy, and the wall clock stepping back between two calls.")
_add("C17", "A third of the cases let every attempt take longer than retry_delay on a virtual clock installed behind every clock binding of retrying.py.")
_add("C05", "A short-lived shallow copy of the client inside histories; multi-key calls with nothing in them.")
_add("C20", "Keys that are instances of str/bytes subclasses printing differently, a shallow copy of the client, and two threads validating keys (instruction granularity) after thousands of earlier keys.")
_add("C12", "Pickle serde with stored values that deserialise to None / falsy; both spellings of a server key in one batch; a second HashClient with other servers works in the same process.")
_add("C15", "Values whose pickles name standard-library classes (os.stat_result, socket.AddressFamily, datetime, Decimal, deque, ...).")
_add("C10", "Several servers without pooling (one connection per server in flight when the interrupt comes).")
_add("C14", "The default seed is 0.")
_add("C06", "The fail-over histories behind the add_server defect are spelled out (recover just before the evicting call, revival after dead_timeout, close).")
_add("C06", "A connected client is carried across fork (pid model): at most one open socket at a time in the child too.")
_add("C19", "reconfigure_nodes() is also called from inside an except block.")
_add("C18", "A configured cache may itself be a FallbackClient subclass (nested configurations): it is consulted and written through its own methods.")
_add("C07", "1500 present keys in one multi-key read under a hard fault at every socket call.")
_add("C13", "A configuration with capitalised host names whose servers join through add_server().")
_add("C03", "Values of 64 KiB and more.")
_add("C16", "The server as a UNIX socket path; 600- and 1100-key reads.")
NOT_YET = "check not built yet in this round (runtime-monitoring design in DESIGN.md §2); will be claimed once its monitor exists"

manifest = {
    "version": 1,
    "setup_cmd": "./setup.sh",
    "hooks": {
        "guard": "PYMEMCACHE_VERIF",
        "enable": "no hooks are compiled in: all monitors attach through pymemcache's own seams (socket_module=, client_class, lock_generator=, hasher=, serde=) and sys.monitoring; checks export PYMEMCACHE_VERIF=1 for uniformity and import /repo's working tree directly",
        "baseline_off_cmd": "cd /repo && env -u PYMEMCACHE_VERIF /venv/bin/python -m pytest -ra -q -p no:cacheprovider --timeout=900 --continue-on-collection-errors",
        "source_commits": [],
        "add_only": True,
    },
    "engines": [
        {"name": "vk", "path": "vk/", "serves_properties": sorted(CHECKS),
         "kind_free_text": "runtime monitoring kit: FakeNet socket_module seam with reply-ownership tags and socket ledger, strict reference memcached model, fault/segmentation planner, deterministic thread scheduler on sys.monitoring, reference oracles, evidence/known-findings runner"},
    ],
    "checks": [],
    "not_applicable": [],
    "notes": "Technique family: runtime monitoring. Ambient configuration: odd-numbered shards of every check run with DEBUG logging for the pymemcache logger (a handler formats every record), shards 2,3 mod 4 with warnings turned into errors; the ambient state is stored with each violation and restored by --replay. Verdicts are three-valued: exit 0 held on what was observed, exit 1 VIOLATION, exit 2 INCONCLUSIVE (monitor not reached / watchdog).",
}
for pid in props:
    if pid in CHECKS:
        cat, tech, text, note, ref = CHECKS[pid]
        manifest["checks"].append({
            "property_id": pid,
            "quick_cmd": "./check %s quick" % pid,
            "thorough_cmd": "./check %s thorough" % pid,
            "evidence_file": "evidence/%s.json" % pid,
            "replay_cmd_template": "./check --replay {path}",
            "engine": "vk",
            "level_claimed": {"category": cat, "text": text, "design_ref": ref},
            "level_note": note,
            "technique": tech,
        })
    else:
        manifest["not_applicable"].append({"property_id": pid, "reason": NOT_YET})
with open(os.path.join(HERE, "MANIFEST.json"), "w") as f:
    json.dump(manifest, f, indent=1)
print("checks:", len(manifest["checks"]), "not_applicable:", len(manifest["not_applicable"]))
