#!/bin/bash
# tools/mutate.sh <patchfile> <check ids...> : apply a patch to /repo, run the quick checks, always revert.
patch="$1"; shift
cd /repo && git apply "$patch" || { echo "patch does not apply"; exit 3; }
trap 'cd /repo && git checkout -- . ' EXIT
cd /verif
for id in "$@"; do
  VERIF_NO_EVIDENCE=1 ./check "$id" "${TIER:-quick}" > /tmp/mut_$id.log 2>&1; rc=$?
  echo "$id rc=$rc $(grep -c '^VIOLATION' /tmp/mut_$id.log) violation lines; first: $(grep -A1 '^VIOLATION' /tmp/mut_$id.log | sed -n 2p | cut -c1-200)"
done
