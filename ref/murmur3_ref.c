/* Independent oracle for C14: MurmurHash3_x86_32 transcribed from Austin Appleby's
 * public-domain MurmurHash3.cpp (smhasher), built with ASan+UBSan so the oracle
 * itself is checked. Protocol: each stdin line "<seed-decimal> <hex bytes or ->"
 * -> one stdout line with the unsigned 32-bit hash in decimal. */
#include <stdint.h>
#include <stdio.h>
#include <stdlib.h>
#include <string.h>

static inline uint32_t rotl32(uint32_t x, int8_t r) { return (x << r) | (x >> (32 - r)); }

static inline uint32_t fmix32(uint32_t h) {
  h ^= h >> 16;
  h *= 0x85ebca6bu;
  h ^= h >> 13;
  h *= 0xc2b2ae35u;
  h ^= h >> 16;
  return h;
}

static uint32_t getblock32(const uint8_t *p, int i) {
  /* little-endian load without alignment assumptions */
  const uint8_t *q = p + 4 * i;
  return (uint32_t)q[0] | ((uint32_t)q[1] << 8) | ((uint32_t)q[2] << 16) | ((uint32_t)q[3] << 24);
}

static uint32_t MurmurHash3_x86_32(const void *key, int len, uint32_t seed) {
  const uint8_t *data = (const uint8_t *)key;
  const int nblocks = len / 4;
  uint32_t h1 = seed;
  const uint32_t c1 = 0xcc9e2d51u;
  const uint32_t c2 = 0x1b873593u;
  for (int i = 0; i < nblocks; i++) {
    uint32_t k1 = getblock32(data, i);
    k1 *= c1;
    k1 = rotl32(k1, 15);
    k1 *= c2;
    h1 ^= k1;
    h1 = rotl32(h1, 13);
    h1 = h1 * 5 + 0xe6546b64u;
  }
  const uint8_t *tail = data + nblocks * 4;
  uint32_t k1 = 0;
  switch (len & 3) {
  case 3: k1 ^= (uint32_t)tail[2] << 16; /* fallthrough */
  case 2: k1 ^= (uint32_t)tail[1] << 8;  /* fallthrough */
  case 1: k1 ^= tail[0];
    k1 *= c1; k1 = rotl32(k1, 15); k1 *= c2; h1 ^= k1;
  }
  h1 ^= (uint32_t)len;
  return fmix32(h1);
}

static int hexval(int c) {
  if (c >= '0' && c <= '9') return c - '0';
  if (c >= 'a' && c <= 'f') return c - 'a' + 10;
  if (c >= 'A' && c <= 'F') return c - 'A' + 10;
  return -1;
}

int main(void) {
  size_t cap = 1 << 16;
  char *line = malloc(cap);
  if (!line) return 2;
  while (1) {
    size_t n = 0;
    int c;
    while ((c = getchar()) != EOF && c != '\n') {
      if (n + 2 >= cap) { cap *= 2; line = realloc(line, cap); if (!line) return 2; }
      line[n++] = (char)c;
    }
    if (c == EOF && n == 0) break;
    line[n] = 0;
    char *sp = strchr(line, ' ');
    if (!sp) { puts("ERR"); fflush(stdout); continue; }
    *sp = 0;
    uint32_t seed = (uint32_t)strtoul(line, NULL, 10);
    const char *hex = sp + 1;
    size_t hl = strlen(hex);
    size_t len = 0;
    uint8_t *buf = malloc(hl / 2 + 1);
    if (!buf) return 2;
    if (!(hl == 1 && hex[0] == '-')) {
      for (size_t i = 0; i + 1 < hl; i += 2) {
        int a = hexval(hex[i]), b = hexval(hex[i + 1]);
        if (a < 0 || b < 0) break;
        buf[len++] = (uint8_t)(a * 16 + b);
      }
    }
    printf("%u\n", MurmurHash3_x86_32(buf, (int)len, seed));
    free(buf);
    if (c == EOF) break;
  }
  fflush(stdout);
  free(line);
  return 0;
}
