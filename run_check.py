"""Entry point: ./check C14 quick | ./check C14 thorough | ./check --replay replays/C14/x.json"""
import os
import sys

sys.path.insert(0, os.path.dirname(os.path.abspath(__file__)))
from vk import common  # noqa: E402


def main(argv):
    if len(argv) >= 2 and argv[0] == "--replay":
        return common.run_replay(argv[1])
    if not argv:
        print(__doc__)
        return 64
    prop = argv[0].upper()
    tier = argv[1] if len(argv) > 1 else os.environ.get("VERIF_TIER", "quick")
    if tier not in ("quick", "thorough"):
        tier = "quick"
    seed = int(os.environ.get("VERIF_SEED", "0") or 0)
    return common.run_check("checks.%s" % prop.lower(), tier, seed)


if __name__ == "__main__":
    sys.exit(main(sys.argv[1:]))
